"""C04 strict decoding accepts exactly schema-conforming messages: theorems Props.C04 + stream `codec` (dec s <raw bytes>)"""
import re
import vlib, gen_facts
from props import codec_common as cc

THEOREMS = ['C04_accept_checksum', 'C04_accept_tags_valid_unique', 'C04_accept_tags_unique_no_data', 'C04_accept_no_missing_mandatory', 'C04_accept_group_elements', 'C04_group_element_shape', 'C04_accept_values_from_input', 'C04_value_from_input_unfold', 'C04_finding_tail_dropped', 'C04_finding_misplaced_tail_dropped', 'C04_finding_tag_alias', 'C04_finding_automatic_duplicate', 'C04_finding_preamble_lenient', 'C04_finding_bodylength_unchecked', 'C04_finding_trailer_lenient', 'C04_finding_value_not_validated', 'C04_finding_nul_in_value', 'C04_finding_data_duplicate']
KINDS = ('none', 'none', 'unknown_tag', 'foreign_tag', 'big_tag', 'dup', 'drop_mandatory', 'bad_chk', 'numtext', 'swap_sections', 'group_first',
         'count_mismatch', 'trailer_tag_in_body', 'dup_auto', 'begin_garbage', 'tag80', 'empty_tag', 'nul_in_value', 'len_data_bad', 'no_soh', 'truncate')
OK = re.compile(r'^ok (H\[.*\] B\[.*\] T\[.*\]) re=(\S+)$')


DIRECTED = ('unknown_tag', 'big_tag', 'dup_auto', 'begin_garbage', 'tag80', 'numtext', 'nul_in_value', 'no_soh', 'trailer_tag_in_body')


def gen(rng, sc, n):
    lines, meta = [], {}
    import random
    r0 = random.Random('C04-directed')
    for k in DIRECTED:                              # every known-finding class is exercised in every run
        for _ in range(12):
            mt, items = cc.gen_message(r0, sc, p_opt=0.3)
            raw, info = cc.mutate(r0, sc, mt, items, k)
            if k == 'no_soh':
                raw = raw[:-1] + b'x'
            l = 'dec s ' + cc.hx(raw)
            lines.append(l)
            meta[l] = (raw, k)
    for i in range(n):
        mt, items = cc.gen_message(rng, sc, p_opt=rng.choice((0.0, 0.2, 0.6, 1.0)))
        k = rng.choice(KINDS)
        raw, info = cc.mutate(rng, sc, mt, items, k)
        l = 'dec s ' + cc.hx(raw)
        lines.append(l)
        meta[l] = (raw, k)
    return lines, meta


def make_oracle(sc, meta, stats):
    kinds_of = {}
    for mt, tr in sc['msgs']:
        pass
    def kind_at(mt, sec, path, tag):
        traits = sc['header'] if sec == 'H' else sc['trailer'] if sec == 'T' else [x for x in sc['msgs'] if x[0] == mt][0][1]
        for (gt, _) in path:
            tr = [t for t in traits if t[0] == gt]
            if not tr:
                return 'other'
            traits = sc['groups'][tr[0][4]]
        tr = [t for t in traits if t[0] == tag]
        return cc.kind(sc, tr[0][1]) if tr else 'other'

    def oracle(line, out):
        w = line.split()
        raw = cc.unhx(w[2])
        probs, toks, classes = cc.conformance(sc, raw)
        stats['conforming' if not probs else 'nonconforming'] = stats.get('conforming' if not probs else 'nonconforming', 0) + 1
        if out.startswith('abort') or out == 'hang' or out.startswith('skipped'):
            return (False, None)
        m = OK.match(out)
        if not m:
            # rejected: must not be a conforming message (completeness clause)
            stats['rejected'] = stats.get('rejected', 0) + 1
            if probs or 'count-mismatch' in classes:
                return (True, None)             # (a count that announces more elements than follow: the property lists no clause for it, either outcome is fine)
            return (False, 'value-text-not-validated' if 'value-text-not-validated' in classes else None)
        stats['accepted'] = stats.get('accepted', 0) + 1
        klass = None
        for c in ('tag-alias', 'data-duplicate', 'invalid-tag-accepted', 'preamble-lenient', 'trailer-lenient', 'automatic-duplicate', 'value-text-not-validated', 'nul-in-value', 'bodylength-unchecked'):
            if c in classes:
                klass = c
                break
        if probs:
            return (False, klass)               # accepted although not conforming
        # retention: every token of the input is a field of the result, same tag, same value
        try:
            d = cc.flatten_dump(cc.parse_dump(m.group(1)))
        except Exception:
            return (False, None)
        mt = raw.split(b'\x01')[2][3:]
        if len(d) != len(toks) + 1:             # + MsgType (tokens hold 8, 9, then from 35 on ... see below)
            pass
        want = toks[:2] + [('H', (), 35, mt)] + [t for t in toks[2:] if not (t[2] == 35 and t[0] == 'H' and t[1] == () and False)]
        # the recogniser's token list already contains 35 as the first header token
        want = toks
        if [(a, b, c) for a, b, c, _ in d] != [(a, b, c) for a, b, c, _ in want]:
            return (False, klass)
        for (s1, p1, t1, printed), (_, _, _, text) in zip(d, want):
            if not cc.value_equiv(kind_at(mt, s1, p1, t1), text, printed):
                return (False, klass)
        return (True, None)
    return oracle


def run(res, replay=None):
    rng = vlib.rng_for('C04', res.seed)
    errs = gen_facts.generate(['consts'])
    sc = cc.schema()
    if replay:
        lines = [l.strip() for l in open(replay) if l.strip() and not l.startswith('#')]
        meta = {}
    else:
        lines, meta = gen(rng, sc, 1200 if res.tier == 'quick' else 40000)
        lines = vlib.corpus_lines('C04') + lines
    stats = {}
    res.assumptions += ['conformance is judged by an independent recogniser written from the property clauses (checksum, tags valid per section/group, no repeated non-group field, mandatory fields, element starts with the first field)',
                        'a group count that differs from the number of elements is not treated as non-conformance (the property does not list it)', 'only FIX42UTEST']
    res.cov['rule'] = ('conforming messages as in C01 mutated at token level (unknown / foreign / >=65536 tags at header, body, in-group and pre-trailer positions, duplicates, dropped mandatory fields, wrong checksum, numeric text variants, '
                       'swapped sections, elements not starting with the first field, count mismatch, trailer tag in body, duplicated 8/9/35, garbage BeginString, 80=/351= preambles, empty/non-numeric tags, NUL in values, '
                       'bad data lengths, missing SOH, truncation); distinct by line; non-trivial = every line')
    vlib.decide_stream(res, module='Fix8Model.Props.C04', theorems=THEOREMS, stream='codec', harness_name='codec', lines=lines,
                       oracle=make_oracle(sc, meta, stats), nontrivial=lambda l: l,
                       harness_kw=dict(need_schema=True), extra_obligation_problems=errs)
    res.cov['verdicts'] = stats
    kinds = {}
    for l in lines:
        if l in meta:
            kinds[meta[l][1]] = kinds.get(meta[l][1], 0) + 1
    res.cov['mutation_kinds'] = kinds
