"""C11 cloning and field transfer preserve message content: theorems Props.C11 + stream `codec` (clone: Message::clone, copy_legal, move_legal)"""
import re
import vlib, gen_facts
from props import codec_common as cc

THEOREMS = ['C11_clone_same_bytes', 'C11_copy_legal_all', 'C11_move_legal_same', 'C11_placeAll_canonical', 'C11_placeAll_canonical_deep', 'C11_copy_step_is_add_field', 'C11_clone_unknown_empty', 'C11_clone_visible_same', 'C11_presetOk_header', 'C11_presetOk_trailer', 'C11_clone_drops_unknown', 'C11_finding_clone_reorders_decoded', 'C11_finding_decoded_is_arrival_order', 'C11_finding_clone_reorders_equal_pos']
RES = re.compile(r'^clone=(\S+) copy=(\S+) orig=(\S+) moved=(\S+) smoved=(\S+)$')
DRES = re.compile(r'^dec=(H\[.*\] B\[.*\] T\[.*\]) re=(\S+) clone=(\S+)$')


def gen(rng, sc, n):
    lines, meta = [], {}
    import random
    r0 = random.Random('C11-directed')
    for i in range(6):                              # messages carrying both user-defined fields without a position: the known finding
        mt2, items = cc.gen_message(r0, sc, p_opt=1.0, msgtype=b'D')
        l = cc.spec_line('clone', mt2, items, r0)
        lines.append(l)
        meta[l] = (mt2, items)
    for i in range(n):
        mt, items = cc.gen_message(rng, sc, p_opt=rng.choice((0.0, 0.3, 0.7, 1.0)), trailer_plain=0.25)
        l = cc.spec_line('clone', mt, items, rng)
        lines.append(l)
        meta[l] = (mt, items)
    for mt, _ in sc['msgs']:
        mt2, items = cc.gen_message(rng, sc, p_opt=1.0, msgtype=mt, trailer_plain=0.5)
        l = cc.spec_line('clone', mt2, items, rng)
        lines.append(l)
        meta[l] = (mt2, items)
    # clone of a DECODED message: fields arrive in schema order (must clone to the same bytes) or in a shuffled order (known finding)
    for i in range(max(16, n // 4)):
        rr = r0 if i < 8 else rng
        want_groups = i % 4 == 3          # in-order cases with repeating groups: a received message holds shallow group elements (only the
        for _ in range(80):               # nested groups that were on the wire), e.g. a first element without and a later one with a nested group
            mt, items = cc.gen_message(rr, sc, p_opt=rr.choice((0.5, 0.9)) if want_groups else 0.5, with_data=(i % 2 == 1))      # in-order cases may carry Length/data pairs
            has_g = any(it.elems is not None for it in items)
            nested = any(it.elems is not None and any(any(x.elems is not None for x in e) for e in it.elems) for it in items)
            if (want_groups and (nested or (has_g and _ > 60))) or (not want_groups and not has_g):
                break
        else:
            continue
        wire, toks = cc.ref_encode(sc, mt, items)
        toks = [(b'%d' % t, v) for t, v in toks]
        nh = 1 + len([x for x in items if x.sec == 'h'])
        shuffled = i % 2 == 0          # (never for the cases with groups: i % 4 == 3 is odd)
        if shuffled:
            body = toks[nh:]
            (r0 if i < 6 else rng).shuffle(body)
            toks = toks[:nh] + body
        l = 'dclone s ' + cc.hx(cc.reframe(sc, toks))
        lines.append(l)
        meta[l] = ('dclone', shuffled and toks[nh:] != [(b'%d' % t, v) for t, v in cc.ref_encode(sc, mt, items)[1]][nh:])
    # copy_legal into a message of ANOTHER type (the documented use: NewOrderSingle -> ExecutionReport)
    xl, xm = cc.gen_xcopy(rng, sc, max(40, n // 5))
    lines += xl
    for l in xl:
        meta[l] = ('xcopy', xm[l])
    return lines, meta


def make_oracle(sc, meta):
    xo = cc.xcopy_oracle(sc, {l: v[1] for l, v in meta.items() if v[0] == 'xcopy'})

    def oracle(line, out):
        if line not in meta:
            return (None, None)
        if meta[line][0] == 'xcopy':
            return xo(line, out)
        if meta[line][0] == 'dclone':
            m = DRES.match(out)
            if not m:
                return (False, None)
            ok = m.group(2) == m.group(3)
            return (ok, None) if ok else (False, 'decoded-message-reordered' if meta[line][1] else None)
        m = RES.match(out)
        if not m:
            return (False, None)
        cl, cp, orig, mv, smv = m.groups()
        ref, _ = cc.ref_encode(sc, *meta[line])
        ok = cl == orig and cp == orig and mv == orig and smv == orig
        if not ok:
            # two or more fields without a schema position (f8c -F user fields): their relative order is the insertion order,
            # which clone/copy_legal (tag order) do not reproduce
            mt, items = meta[line]
            body_tr = {t[0]: t for t in [x for x in sc['msgs'] if x[0] == mt][0][1]}
            nopos = [i for i in items if i.sec == 'b' and cc.eff_pos(body_tr[i.tag]) == 0]
            return (False, 'positionless-fields-reordered' if len(nopos) >= 2 else None)
        return (True, None)
    return oracle


def run(res, replay=None):
    rng = vlib.rng_for('C11', res.seed)
    errs = gen_facts.generate(['consts'])
    sc = cc.schema()
    if replay:
        lines = [l.strip() for l in open(replay) if l.strip() and not l.startswith('#')]
        meta = {}
    else:
        lines, meta = gen(rng, sc, 300 if res.tier == 'quick' else 15000)
        lines = vlib.corpus_lines('C11') + lines
    res.assumptions += ['messages carry no permissive pass-through bytes (clone does not copy _unknown)', 'each object is encoded once', 'only FIX42UTEST']
    res.cov['rule'] = ('schema-driven messages (all message types, optional subsets, nested groups, data pairs): clone(), copy_legal into a fresh deep-constructed message of the same type (body, header, trailer), '
                       'move_legal likewise from a second identical source, and into a shallow target (created like the message Message::factory decodes into); the four encodings must be byte-identical to each other and to the position-ordered reference rendering; decoded messages (with nested groups) cloned; '
                       'copy_legal of the body into a fresh message of ANOTHER type (fields legal there, in the target position order); distinct by line')
    vlib.decide_stream(res, module='Fix8Model.Props.C11', theorems=THEOREMS, stream='codec', harness_name='codec', lines=lines,
                       oracle=make_oracle(sc, meta), nontrivial=lambda l: l if '[' in l or l.count('=') > 8 else None,
                       harness_kw=dict(need_schema=True), extra_obligation_problems=errs)
    res.cov['with_groups'] = sum(1 for l in lines if '[' in l)
