"""C30 inter-thread queue (ff::uMPMC_Ptr_Queue through ff_unbounded_queue): theorems Props.C30 + stream `mpmc`
(cooperative scheduler on the REAL queue, every shared access one step, replayed on the Lean model) + free-running stress
under TSan judged by the property oracle only."""
import hashlib, os, re, time
import vlib, gen_facts

THEOREMS = ['C30_inv_init', 'C30_inv_step', 'C30_ticket', 'C30_no_duplicate', 'C30_no_loss', 'C30_quiescent_complete',
            'C30_consumer_order', 'C30_consumer_subsequence', 'C30_empty', 'C30_not_empty_when_head_pushed',
            'C30_finding_empty_while_later_push_complete']


# ------------------------------------------------------------------------------------------------
# schedule generation.  `Sim` mirrors the step structure of push/pop ONLY to produce valid, interesting schedules
# (which thread is inside an operation, where it stands); it is not the oracle and not the model.

class Sim:
    def __init__(self, n):
        self.n, self.P, self.C = n, 0, 0
        self.sP, self.sC = list(range(n)), list(range(n))
        self.buf = [[] for _ in range(n)]
        self.pc = {}

    def key(self):
        return (self.P, self.C, tuple(self.sP), tuple(self.sC), tuple(tuple(b) for b in self.buf), tuple(sorted(self.pc.items())))

    def clone(self):
        s = Sim(self.n)
        s.P, s.C, s.sP, s.sC = self.P, self.C, list(self.sP), list(self.sC)
        s.buf, s.pc = [list(b) for b in self.buf], dict(self.pc)
        return s

    def busy(self, t):
        return t in self.pc

    def at(self, t):
        return self.pc[t][0] if t in self.pc else 'idle'

    def call(self, t, op, d=None):
        assert t not in self.pc
        self.pc[t] = ('pStart', d) if op == 'push' else ('cStart',)

    def run(self, t):
        """one shared access of thread t; returns the operation's result when it completes"""
        pc, n = self.pc[t], self.n
        k = pc[0]
        if k == 'pStart':
            self.pc[t] = ('pReadPw', pc[1], self.P)
        elif k == 'pReadPw':
            self.pc[t] = ('pCas', pc[1], pc[2]) if self.sP[pc[2] % n] == pc[2] else ('pStart', pc[1])
        elif k == 'pCas':
            if self.P == pc[2]:
                self.P += 1
                self.pc[t] = ('pWon', pc[1], pc[2])
            else:
                self.pc[t] = ('pStart', pc[1])
        elif k == 'pWon':
            self.buf[pc[2] % n].append(pc[1])
            self.pc[t] = ('pPushed', pc[2])
        elif k == 'pPushed':
            self.sP[pc[1] % n] = pc[1] + n
            del self.pc[t]
            return 'pushed'
        elif k == 'cStart':
            self.pc[t] = ('cReadPr', self.C)
        elif k == 'cReadPr':
            self.pc[t] = ('cTest', pc[1]) if self.sC[pc[1] % n] == pc[1] else ('cStart',)
        elif k == 'cTest':
            if self.sP[pc[1] % n] <= pc[1]:
                del self.pc[t]
                return 'empty'
            self.pc[t] = ('cCas', pc[1])
        elif k == 'cCas':
            if self.C == pc[1]:
                self.C += 1
                self.pc[t] = ('cWon', pc[1])
            else:
                self.pc[t] = ('cStart',)
        elif k == 'cWon':
            b = self.buf[pc[1] % n]
            self.pc[t] = ('cPopped', pc[1], b.pop(0) if b else None)
        elif k == 'cPopped':
            self.sC[pc[1] % n] = pc[1] + n
            del self.pc[t]
            return 'pop'
        return None


def slots_of(nq, facts):
    nq = facts['default'] if nq == 0 else nq
    nq = max(nq, facts['min'])
    p = 1
    while p < nq:
        p *= 2
    return p


class Script:
    """builds one schedule (a `new` segment) with the mirror alongside"""
    def __init__(self, nq, inner, facts, first_payload):
        self.lines = ['new %d %d' % (nq, inner)]
        self.sim = Sim(slots_of(nq, facts))
        self.next_d = first_payload

    def push(self, t):
        d = self.next_d
        self.next_d += 1
        self.sim.call(t, 'push', d)
        self.lines.append('push %d %d' % (t, d))

    def pop(self, t):
        self.sim.call(t, 'pop')
        self.lines.append('pop %d' % t)

    def run(self, t):
        self.lines.append('run %d' % t)
        return self.sim.run(t)

    def run_to(self, t, where, limit=50):
        """run t until it stands at program point `where` (or finishes)"""
        for _ in range(limit):
            if not self.sim.busy(t) or self.sim.at(t) == where:
                return
            self.run(t)

    def finish(self, t, limit=200):
        r = None
        for _ in range(limit):
            if not self.sim.busy(t):
                return r
            r = self.run(t)
        return r

    def full_push(self, t):
        self.push(t)
        return self.finish(t)

    def full_pop(self, t):
        self.pop(t)
        return self.finish(t)

    def settle(self, rng=None, limit=4000):
        """run everything in flight to completion (round robin / random order)"""
        for _ in range(limit):
            busy = sorted(self.sim.pc)
            if not busy:
                return
            self.run(rng.choice(busy) if rng else busy[0])

    def drain(self, t):
        """one consumer empties the queue (stops at the first `empty`)"""
        for _ in range(10000):
            if self.full_pop(t) == 'empty':
                return


GEOMS = [(2, 0), (4, 0), (8, 0), (0, 0), (2, 2), (2, 4), (4, 2), (4, 8), (8, 4), (1, 3), (3, 16), (5, 2), (0, 0)]


def geometry(rng):
    nq, inner = rng.choice(GEOMS)
    if (nq, inner) != (0, 0) and inner == 0:
        inner = rng.choice((2048, 2048, 64, 16))
    return nq, inner


def gen_random(rng, facts, steps, payload0):
    nq, inner = geometry(rng)
    sc = Script(nq, inner, facts, payload0)
    np_, nc = rng.randrange(2, 7), rng.randrange(1, 5)
    prods, cons = list(range(np_)), list(range(np_, np_ + nc))
    stalled = set()
    cur = None
    style = rng.choice(('uniform', 'bursty', 'stall', 'producers-first', 'starved'))
    budget = {t: rng.randrange(2, 40) for t in prods + cons}
    for i in range(steps):
        if style == 'stall' and rng.random() < 0.03:
            stalled = set(rng.sample(prods + cons, rng.randrange(0, max(1, (np_ + nc) // 2))))
        cand = [t for t in prods + cons if t not in stalled and (sc.sim.busy(t) or budget[t] > 0)]
        if style == 'producers-first' and i < steps // 3:
            cand = [t for t in cand if t in prods] or cand
        if style == 'starved' and rng.random() < 0.8:
            cand = [t for t in cand if t in cons] or cand
        if not cand:
            stalled = set()
            if not any(sc.sim.busy(t) or budget[t] > 0 for t in prods + cons):
                break
            continue
        if cur in cand and style in ('bursty', 'stall') and rng.random() < 0.7:
            t = cur
        else:
            t = rng.choice(cand)
        cur = t
        if sc.sim.busy(t):
            sc.run(t)
        else:
            budget[t] -= 1
            if t in prods:
                sc.push(t)
            else:
                sc.pop(t)
    if rng.random() < 0.8:
        sc.settle(rng if rng.random() < 0.5 else None)
        sc.settle()
        if not sc.sim.pc:
            sc.drain(cons[0])
    return sc


def gen_directed(facts, payload0):
    """named scenarios, for every slot count of interest"""
    out = []
    d0 = [payload0]

    def mk(nq, inner=2048):
        sc = Script(nq, inner, facts, d0[0])
        return sc

    def done(sc):
        d0[0] = sc.next_d
        out.append(sc)

    for nq in (2, 4, 8):
        n = slots_of(nq, facts)
        # consumer overtaking: A wins ticket 0 and stalls at each point after its CAS; B pops the other slots and then
        # has to wait for A's slot (ticket n lives in the slot of ticket 0)
        for stall_at in ('cWon', 'cPopped'):
            sc = mk(nq)
            for i in range(n + 2):
                sc.full_push(0)
            A, B = 10, 11
            sc.pop(A)
            sc.run_to(A, stall_at)
            for i in range(n - 1):
                sc.full_pop(B)
            sc.pop(B)
            for i in range(9):     # B spins on the slot A still owns
                sc.run(B)
            sc.finish(A)
            sc.finish(B)
            sc.full_pop(A)
            sc.drain(B)
            done(sc)
        # producer overtaking and pop-on-empty while the head ticket is in flight (between CAS and inner push,
        # between inner push and the seqP store)
        for stall_at in ('pWon', 'pPushed'):
            sc = mk(nq)
            A, B, Cn = 0, 1, 10
            sc.push(A)
            sc.run_to(A, stall_at)
            sc.full_pop(Cn)                       # empty: head ticket reserved, not published
            for i in range(n - 1):
                sc.full_push(B)                   # later tickets complete
            sc.full_pop(Cn)                       # still empty (the reading that does NOT hold otherwise)
            sc.push(B)
            for i in range(7):                    # B spins: ticket n needs A's slot
                sc.run(B)
            sc.finish(A)
            sc.finish(B)
            sc.drain(Cn)
            done(sc)
        # truly empty queue, pop before any push; pop racing with a push that has not yet won its CAS
        sc = mk(nq)
        sc.full_pop(10)
        sc.push(0)
        sc.run_to(0, 'pCas')
        sc.full_pop(10)
        sc.finish(0)
        sc.full_pop(10)
        sc.full_pop(10)
        done(sc)
        # CAS failures: all producers read the same preadP, one wins; same for the consumers
        sc = mk(nq)
        for t in (0, 1, 2):
            sc.push(t)
            sc.run_to(t, 'pCas')
        for t in (2, 0, 1):
            sc.finish(t)
        for t in (10, 11, 12):
            sc.pop(t)
            sc.run_to(t, 'cCas')
        for t in (11, 12, 10):
            sc.finish(t)
        sc.drain(10)
        done(sc)
        # stale reads: a producer / consumer reads the counter, sleeps for more than a lap of the ring, resumes
        sc = mk(nq)
        sc.push(5)
        sc.run_to(5, 'pReadPw')
        sc.pop(15)
        sc.run_to(15, 'cReadPr')
        for i in range(2 * n + 1):
            sc.full_push(0)
            sc.full_pop(10)
        sc.finish(5)
        sc.finish(15)
        sc.drain(10)
        done(sc)
        # the same with the sleepers already past their sequence check (standing at the CAS)
        sc = mk(nq)
        sc.full_push(0)
        sc.push(5)
        sc.run_to(5, 'pCas')
        sc.pop(15)
        sc.run_to(15, 'cCas')
        for i in range(2 * n + 1):
            sc.full_push(0)
            sc.full_pop(10)
        sc.finish(5)
        sc.finish(15)
        sc.drain(10)
        done(sc)
        # wrap-around of the slots, sequentially, three laps; small inner buffers so that the slot FIFOs grow too
        for inner in (2048, 2):
            sc = mk(nq, inner)
            for lap in range(3):
                for i in range(n + 1):
                    sc.full_push(lap % 2)
                for i in range(n):
                    sc.full_pop(10 + lap % 2)
            for i in range(5 * n):
                sc.full_push(0)
            sc.drain(10)
            done(sc)
    # the default geometry through ff_unbounded_queue, the witness schedule of C30_finding_empty_while_later_push_complete first
    sc = mk(0, 0)
    for i in range(6):
        sc.full_push(i % 2)
    sc.drain(10)
    done(sc)
    # malformed commands: not transitions (both sides must refuse them and keep the state)
    sc = mk(2)
    sc.lines += ['run 3', 'pop 99', 'push 0 0', 'frobnicate', 'run', 'push 1']
    sc.push(0)
    sc.lines += ['push 0 77', 'pop 0']
    sc.finish(0)
    sc.lines += ['run 0']
    sc.drain(10)
    done(sc)
    return out


def gen_exhaustive(facts, nq, progs, payload0, cap_lines):
    """every reachable state and every transition of a small configuration (threads with fixed operation lists) is
    covered by at least one schedule: depth-first edge cover from the initial state, a schedule per dead end"""
    n = slots_of(nq, facts)
    threads = sorted(progs)
    seen_edges = set()
    seen_states = set()
    scripts = []
    total = [0]
    stats = dict(states=0, edges=0, truncated=False)

    def enabled(sim, pos):
        return [t for t in threads if sim.busy(t) or pos[t] < len(progs[t])]

    def explore(sim, pos, path, payload):
        """path: list of commands so far"""
        stack = [(sim, pos, path, payload)]
        while stack:
            sim, pos, path, payload = stack.pop()
            extended = False
            k = (sim.key(), tuple(sorted(pos.items())))
            if k not in seen_states:
                seen_states.add(k)
            for t in enabled(sim, pos):
                if (k, t) in seen_edges:
                    continue
                seen_edges.add((k, t))
                s2, p2 = sim.clone(), dict(pos)
                pl = payload
                if s2.busy(t):
                    s2.run(t)
                    cmd = 'run %d' % t
                else:
                    op = progs[t][p2[t]]
                    p2[t] += 1
                    if op == 'push':
                        s2.call(t, 'push', pl)
                        cmd = 'push %d %d' % (t, pl)
                        pl += 1
                    else:
                        s2.call(t, 'pop')
                        cmd = 'pop %d' % t
                stack.append((s2, p2, path + [cmd], pl))
                extended = True
            if not extended and path:
                if total[0] + len(path) + 1 > cap_lines:
                    stats['truncated'] = True
                    return
                scripts.append(['new %d 2048' % nq] + path)
                total[0] += len(path) + 1

    explore(Sim(n), {t: 0 for t in threads}, [], payload0)
    stats['states'], stats['edges'] = len(seen_states), len(seen_edges)
    return scripts, stats


def stress_lines(rng, count, scale):
    lines = []
    for i in range(count):
        np_, nc = rng.randrange(1, 9), rng.randrange(1, 9)
        if i % 4 == 0:
            np_, nc = rng.randrange(2, 7), 1                       # the shape of every use inside fix8
        nq, inner = rng.choice(((0, 0), (0, 0), (2, 2048), (2, 4), (8, 16), (4, 2)))
        items = max(20, scale // np_)
        lines.append('stress %d %d %d %d %d %d %d' % (np_, nc, items, nq, inner, rng.randrange(0, 2), rng.randrange(1, 10 ** 6)))
    return lines


# ------------------------------------------------------------------------------------------------
# the property, stated on the implementation's own answers (independent of the Lean model and of Sim)

STRICT_CLASS = 'empty-while-later-push-complete'
STATE_RE = re.compile(r'^(\S+) P=(\d+) C=(\d+) sP=([\d,]*) sC=([\d,]*) len=([\d,]*)$')


class Oracle:
    """Tracks, from the request lines and the real queue's answers only:
    which thread is pushing what / popping, which push won which reservation (preadP going from t to t+1 during a step of a
    pushing thread gives that thread ticket t), which pop won which reservation (preadC likewise), which pushes have returned.
    Checks: a pop delivers exactly the payload reserved under the same ticket number (reservation order), delivers something,
    never delivers a payload twice or one that was not pushed, each consumer sees each producer's payloads in that producer's
    program order, and `empty` is reported only while the push holding the head ticket (preadC) has not returned."""
    def __init__(self):
        self.reset()
        self.why = ''
        self.strict_hits = 0
        self.strict_class_registered = any(k.get('class') == STRICT_CLASS for k in vlib.known_findings('C30'))

    def reset(self):
        self.op = {}            # thread -> ('push', d) | ('pop',)
        self.P = self.C = 0
        self.push_ticket = []   # ticket -> (thread, payload)
        self.push_done = set()  # tickets whose push has returned
        self.holds_push = {}    # thread -> ticket
        self.holds_pop = {}
        self.order = {}         # payload -> (producer, index in that producer's program order)
        self.count = {}
        self.delivered = set()
        self.last_seen = {}     # (consumer, producer) -> index
        self.live = False

    def fail(self, why):
        self.why = why
        return (False, None)

    def __call__(self, line, out):
        w = line.split()
        if out.startswith(('abort', 'skipped')):
            return self.fail('harness died: ' + out)
        if w and w[0] == 'stress':
            return self.stress(w, out)
        if w and w[0] == 'new':
            self.reset()
            self.live = out.startswith('new ')
            return (True if self.live else None, None)
        m = STATE_RE.match(out)
        if not m or not self.live:
            return (None, None)
        res, P, C = m.group(1), int(m.group(2)), int(m.group(3))
        if res == 'bad':
            return (None, None)
        t = int(w[1])
        if w[0] == 'push':
            d = int(w[2])
            self.op[t] = ('push', d)
            k = self.count.get(t, 0)
            self.count[t] = k + 1
            if d in self.order:
                return (None, None)      # generator keeps payloads unique; otherwise identity is not observable
            self.order[d] = (t, k)
            return (None, None)
        if w[0] == 'pop':
            self.op[t] = ('pop',)
            return (None, None)
        # run t
        op = self.op.get(t)
        if op is None:
            return (None, None)
        ok = True
        if P == self.P + 1 and op[0] == 'push':
            self.push_ticket.append((t, op[1]))
            self.holds_push[t] = self.P
        if C == self.C + 1 and op[0] == 'pop':
            self.holds_pop[t] = self.C
        headC = self.C           # head ticket before this step (an `empty` step does not move it)
        self.P, self.C = P, C
        if res == 'pushed':
            if t in self.holds_push:
                self.push_done.add(self.holds_push.pop(t))
            del self.op[t]
        elif res == 'empty':
            del self.op[t]
            if headC < len(self.push_ticket) and headC in self.push_done:
                return self.fail('pop reported empty although the push holding the head ticket %d (payload %d) had returned' % (headC, self.push_ticket[headC][1]))
            later = [x for x in self.push_done if x > headC]
            if later:
                # the literal reading "empty only if NO element at all was fully pushed" fails here: known finding
                self.strict_hits += 1
                if self.strict_class_registered:
                    return (False, STRICT_CLASS)
        elif res.startswith('pop='):
            del self.op[t]
            r = self.holds_pop.pop(t, None)
            if res == 'pop=nil':
                return self.fail('pop returned true but delivered nothing')
            d = int(res[4:])
            if d not in self.order:
                return self.fail('pop delivered %d which was never pushed' % d)
            if d in self.delivered:
                return self.fail('payload %d delivered twice' % d)
            self.delivered.add(d)
            p, k = self.order[d]
            if self.last_seen.get((t, p), -1) >= k:
                return self.fail('consumer %d received payload %d of producer %d after a later one' % (t, d, p))
            self.last_seen[(t, p)] = k
            if r is None or r >= len(self.push_ticket) or self.push_ticket[r][1] != d:
                return self.fail('pop with reservation %s delivered %d, the push with that reservation carried %s'
                                 % (r, d, self.push_ticket[r][1] if r is not None and r < len(self.push_ticket) else 'nothing'))
        return (ok, None)

    def stress(self, w, out):
        if not out.startswith('stress left='):
            return self.fail('stress run did not finish (no progress / crash): ' + out[:80])
        np_, nc, items = int(w[1]), int(w[2]), int(w[3])
        parts = out.split('|')
        left = int(parts[0].split('=')[1])
        seen = set()
        for c, part in enumerate(parts[1:]):
            last = {}
            for e in part.strip().split(','):
                if not e:
                    continue
                p, s = e.split('.')
                p, s = int(p), int(s)
                if not (0 <= p < np_ and 1 <= s <= items):
                    return self.fail('consumer %d popped %s which was never pushed' % (c, e))
                if (p, s) in seen:
                    return self.fail('element %s popped twice' % e)
                seen.add((p, s))
                if last.get(p, 0) >= s:
                    return self.fail('consumer %d saw producer %d go backwards: %d after %d' % (c, p, s, last[p]))
                last[p] = s
        if left or len(seen) != np_ * items:
            return self.fail('%d of %d elements popped, %d left behind after every consumer had seen an empty queue with all pushes complete'
                             % (len(seen), np_ * items, left))
        return (True, None)


# ------------------------------------------------------------------------------------------------

def build_lines(res, facts):
    rng = vlib.rng_for('C30', res.seed)
    thorough = res.tier == 'thorough'
    scripts = []
    payload = 1
    for sc in gen_directed(facts, payload):
        scripts.append(sc.lines)
        payload = sc.next_d
    nrand = 150 if thorough else 28
    for i in range(nrand):
        sc = gen_random(rng, facts, rng.choice((60, 150, 400, 1200)) if not thorough else rng.choice((100, 400, 1500, 4000)), payload)
        scripts.append(sc.lines)
        payload = sc.next_d
    ex = {}
    if thorough:
        configs = [
            (2, {0: ['push'], 1: ['push'], 10: ['pop', 'pop']}, 10 ** 7),
            (2, {0: ['push'], 1: ['push'], 10: ['pop'], 11: ['pop']}, 10 ** 7),
            (2, {0: ['push', 'push', 'push'], 10: ['pop', 'pop'], 11: ['pop']}, 10 ** 7),
            (2, {0: ['push', 'push'], 1: ['push'], 10: ['pop', 'pop']}, 10 ** 7),
            (2, {0: ['push'], 1: ['push'], 2: ['push'], 10: ['pop']}, 120000),      # partial: the full cover is ~10^6 lines
        ]
    else:
        configs = [(2, {0: ['push'], 1: ['push'], 10: ['pop']}, 10 ** 6), (2, {0: ['push'], 10: ['pop'], 11: ['pop']}, 10 ** 6),
                   (2, {0: ['push', 'push'], 10: ['pop']}, 10 ** 6)]
    for nq, progs, cap in configs:
        s, st = gen_exhaustive(facts, nq, progs, payload, cap)
        scripts += s
        ex['n=%d %s' % (nq, ' '.join('%d:%s' % (t, '+'.join(o)) for t, o in sorted(progs.items())))] = dict(st, schedules=len(s))
    lines = [l for s in scripts for l in s]
    lines += stress_lines(rng, 6 if thorough else 2, 3000 if thorough else 600)
    return lines, len(scripts), ex


def run_tsan_stress(res, oracle):
    """free-running threads on the TSan build; judged by the property oracle only (FastFlow's pre-C++11 atomics are
    volatile accesses with explicit fences, which TSan reports as races: counted, not judged)"""
    rng = vlib.rng_for('C30-stress', res.seed)
    thorough = res.tier == 'thorough'
    san = 'tsan'
    try:
        exe = vlib.build_harness('mpmc', san='tsan')
    except vlib.BuildError:
        san = 'asan'
        exe = vlib.build_harness('mpmc', san='asan')
    lines = stress_lines(rng, 24 if thorough else 4, 40000 if thorough else 4000)
    # report_bugs=0: FastFlow's atomics are volatile accesses with explicit fences, so TSan flags every queue cell; with
    # reporting on, its racy-address table degenerates (threads pile up on the runtime's internal mutex: observed as a
    # 30 s stall with no queue operation completing).  The TSan build is used for its different timing only.
    env = dict(vlib.ENV_RUN, TSAN_OPTIONS='report_bugs=0:exitcode=0:report_signal_unsafe=0:history_size=2')
    t0 = time.time()
    outs, aborts = vlib.run_harness(exe, lines, env=env, per_line_timeout=120.0)
    bad = 0
    elements = 0
    for l, o in zip(lines, outs):
        ok, _ = oracle(l, o)
        w = l.split()
        elements += int(w[1]) * int(w[3])
        if ok is False:
            bad += 1
            if bad <= 3:
                res.violation(l, 'property oracle fails on the free-running implementation (%s build): %s -> %s' % (san, l, oracle.why))
    res.cov['stress'] = dict(build=san, runs=len(lines), threads='2..16', elements=elements, oracle_failures=bad, aborts=len(aborts),
                             tsan_race_reports='disabled (report_bugs=0), not judged', wall_s=round(time.time() - t0, 1))


def run(res, replay=None):
    errs = gen_facts.generate(['mpmc'])
    src = open(os.path.join(vlib.LEAN, 'Fix8Model', 'Gen', 'MpmcConsts.lean')).read()
    facts = dict(default=int(re.search(r'mpmcDefaultQueues : Nat := (\d+)', src).group(1)), min=int(re.search(r'mpmcMinQueues : Nat := (\d+)', src).group(1)))
    ex = {}
    nscripts = 0
    if replay:
        lines = [l.strip() for l in open(replay) if l.strip() and not l.startswith('#')]
    else:
        gen, nscripts, ex = build_lines(res, facts)
        lines = vlib.corpus_lines('C30') + gen
    res.assumptions += ['atomics are sequentially consistent and every shared access of push/pop is one indivisible step (x86 ordering and the WMB placement are not modelled)',
                        'the inner uSWSR_Ptr_Buffer is an unbounded FIFO with atomic push/pop (modelled, exercised with inner sizes 2..2048, not verified)',
                        'counters are unbounded naturals: fewer than 2^63 operations per queue; payloads are non-null pointers (a null payload is refused by the inner buffer)',
                        'yield points are injected in front of every atomic_long_read / atomic_long_set / abstraction_cas / inner push / inner pop of MPMCqueues.hpp by macro interposition in the harness (harness/mpmc_hook.hpp); /repo is not modified',
                        'the emptiness clause is decided in the reading of C30_empty (head ticket not completely pushed); the stronger reading is refuted by C30_finding_empty_while_later_push_complete and its replay (corpus/C30/empty_while_later_ticket_complete.txt)']
    res.cov['rule'] = ('schedules = sequences of (start push/pop on thread t | one shared access of thread t): directed scenarios for 2/4/8 slots (consumer overtaking at both stall points, producer overtaking, '
                       'pop on empty while the head ticket is in flight at both stall points, CAS failures, stale reads over more than a lap, slot wrap-around with inner size 2 and 2048, default geometry through ff_unbounded_queue, malformed commands), '
                       'random schedules (2-6 producers, 1-4 consumers, slot counts from nqueues 1,2,3,4,5,8 and the default, inner sizes 2..2048, uniform/bursty/stalling/starved styles, drained at the end), '
                       'edge cover (every reachable state and every transition) of small configurations on 2 slots (quick: 2 producers x 1 consumer, 1 producer x 2 consumers, 1 producer x 2 pushes x 1 consumer; thorough: 2x1 op producers with 1 consumer x 2 pops and with 2 consumers, 3 pushes against 2+1 pops, 2+1 pushes against 2 pops, and a truncated part of 3 producers x 1 consumer: coverage.exhaustive_configurations), free-running stress lines. '
                       'After EVERY step preadP, preadC, seqP[], seqC[], the inner buffer lengths and any result are compared with the model. distinct non-trivial = distinct schedule prefixes ending in a step')
    res.cov['schedules'] = nscripts
    res.cov['exhaustive_configurations'] = ex or {}      # complete enumerations of small configurations (the schema reserves `exhaustive` for a boolean)
    res.cov['exhaustive'] = False                          # the run as a whole is not an exhaustive enumeration
    h = [hashlib.sha256()]
    def nontrivial(l):
        if l.startswith('new'):
            h[0] = hashlib.sha256()
        h[0].update(l.encode() + b'\n')
        return h[0].hexdigest()[:16] if l.startswith('run') else None
    oracle = Oracle()
    def orc(l, o):
        r = oracle(l, o)
        return r
    def compare(l, a, b):
        return True if l.startswith('stress') else a == b
    r = vlib.decide_stream(res, module='Fix8Model.Props.C30', theorems=THEOREMS, stream='mpmc', harness_name='mpmc',
                           lines=lines, oracle=orc, nontrivial=nontrivial, harness_kw=dict(san='asan'), stateful=True,
                           compare=compare, extra_obligation_problems=errs, segment_start=lambda x: x.startswith(('new', 'stress')))
    res.cov['empty_with_later_reservation_complete'] = oracle.strict_hits
    if oracle.why and res.violations:
        res.notes.append('last oracle message: ' + oracle.why)
    if r and not replay:
        outs = r['impl']
        res.cov['results'] = dict(pushed=sum(o.startswith('pushed') for o in outs), popped=sum(o.startswith('pop=') for o in outs),
                                  empty=sum(o.startswith('empty') for o in outs), refused=sum(o.startswith('bad') for o in outs))
        if not res.violations:
            run_tsan_stress(res, Oracle())
    if replay and r:
        for l, a, b in zip(r['lines'], r['impl'], r['model'] or [''] * len(lines)):
            print('%-14s impl: %-70s%s' % (l[:14], a[:120], '' if a == b or l.startswith('stress') else '   MODEL: ' + b[:120]))
