"""C01 encode/decode round trip: theorems Props.C01 + stream `codec` (rt: build through the API, encode, Message::factory, dump, re-encode)"""
import re
import vlib, gen_facts
from props import codec_common as cc

THEOREMS = ['C01_fix44_wf', 'C01_roundtrip_fix44', 'C01_token_roundtrip', 'C01_tag_roundtrip', 'C01_int_value_roundtrip', 'C01_section_step', 'C01_section_finish', 'C01_elem_step', 'C01_elem_finish', 'C01_group_roundtrip', 'C01_section_roundtrip', 'C01_roundtrip_explicit', 'C01_roundtrip', 'C01_roundtrip_by_type', 'C01_roundtrip_norm', 'C01_utest_wf', 'C01_roundtrip_utest', 'C01_roundtrip_utest_by_type']
RT = re.compile(r'^wire=(\S+) dec=(H\[.*\] B\[.*\] T\[.*\]) re=(\S+)$')


def gen(rng, sc, n):
    lines, meta = [], {}
    for i in range(n):
        mt, items = cc.gen_message(rng, sc, trailer_plain=0.25)
        l, its = cc.spec_line('rt', mt, items, rng, want_items=True)
        lines.append(l)
        meta[l] = (mt, its)
    # every message type once with every optional field
    for mt, _ in sc['msgs']:
        mt2, items = cc.gen_message(rng, sc, p_opt=1.0, msgtype=mt, trailer_plain=0.5)
        l, its = cc.spec_line('rt', mt2, items, rng, want_items=True)
        lines.append(l)
        meta[l] = (mt2, its)
    # BodyLength exactly at and around the digit-count boundaries
    for target in (99, 100, 101, 999, 1000, 1001, 100, 1000):
        for _ in range(40):
            mt, items = cc.gen_message(rng, sc, p_opt=rng.choice((0.0, 0.2, 0.5)), with_data=False)
            it2 = cc.pad_to(rng, sc, mt, items, target)
            if it2 is not None:
                l, its = cc.spec_line('rt', mt, it2, rng, want_items=True)
                lines.append(l)
                meta[l] = (mt, its)
                break
    return lines, meta


def make_oracle(sc, meta):
    def oracle(line, out):
        if line not in meta:
            # corpus lines (no generator record): a flat `rt` line is still judged - every value given must be on the wire under its tag
            # and the re-encoding of the decoded message must equal the wire
            w = line.split()
            if len(w) < 3 or w[0] != 'rt' or '[' in line:
                return (None, None)
            m = RT.match(out)
            if not m:
                return (False, None)
            wire = cc.unhx(m.group(1))
            for tok in w[2:]:
                t, _, v = tok.lstrip('ht').partition('=')
                val = b'' if v == '-' else bytes.fromhex(v)
                if (b'\x01' + t.encode() + b'=' + val + b'\x01') not in wire:
                    return (False, None)
            return (m.group(3) == m.group(1), None)
        mt, items = meta[line]
        m = RT.match(out)
        if not m:
            return (False, None)            # threw, aborted or produced something else: the round trip failed
        wire, dump, re_ = m.group(1), m.group(2), m.group(3)
        try:
            d = cc.parse_dump(dump)
        except Exception:
            return (False, None)
        body_tr = [x for x in sc['msgs'] if x[0] == mt][0][1]
        exp_h = cc.expected_tree(sc, sc['header'], [i for i in items if i.sec == 'h'])
        exp_b = cc.expected_tree(sc, body_tr, [i for i in items if i.sec == 'b'])
        exp_t = cc.expected_tree(sc, sc['trailer'], [i for i in items if i.sec == 't'])
        hi = d['H'][0]
        ok = (len(hi) >= 3 and hi[0][0] == 8 and hi[0][1] == sc['beginstr'] and hi[1][0] == 9 and hi[2] == (35, mt, None)
              and hi[3:] == exp_h and d['B'][0] == exp_b and [x for x in d['T'][0] if x[0] != 10] == exp_t and sum(1 for x in d['T'][0] if x[0] == 10) == 1
              and not d['H'][1] and not d['B'][1] and not d['T'][1] and re_ == wire)
        return (ok, None)
    return oracle


def hypothesis_stat(stream, rt_lines):
    """how many of the generated messages satisfy the hypothesis of C01_roundtrip (Conforms, evaluated by the model driver on the
    built message) or of C01_roundtrip_norm (Conforms after normMsg): the theorem speaks about exactly those; the others are
    covered by the correspondence and the oracle only.  Informative, never a verdict."""
    if not rt_lines:
        return dict(of=0)
    try:
        o = vlib.run_driver(stream, ['conf' + l[2:] for l in rt_lines])
    except vlib.BuildError as e:
        return dict(of=len(rt_lines), error=str(e)[-200:])
    import collections
    c = collections.Counter(o)
    out = dict(of=len(rt_lines), conforms=c.get('conf 1', 0), conforms_after_norm=c.get('conf n', 0), outside=c.get('conf 0', 0),
               other=len(o) - c.get('conf 1', 0) - c.get('conf n', 0) - c.get('conf 0', 0))
    ex = [l for l, x in zip(rt_lines, o) if x == 'conf 0']
    if ex:
        out['outside_example'] = ex[0][:300]
        out['outside_with_lone_trailer_length'] = sum(1 for l in ex if ' t93=' in l and ' t89=' not in l)
    return out


def run(res, replay=None):
    rng = vlib.rng_for('C01', res.seed)
    errs = gen_facts.generate(['consts'])
    sc = cc.schema()
    if replay:
        lines = [l.strip() for l in open(replay) if l.strip() and not l.startswith('#')]
        meta = {}
    else:
        lines, meta = gen(rng, sc, 400 if res.tier == 'quick' else 20000)
        lines = vlib.corpus_lines('C01') + lines
    res.assumptions += ['values are carried as wire text; the typed field classes are modelled as print(parse(text)); generated values are canonical texts of their type (ints incl. INT_MIN/INT_MAX and negatives, '
                        'printable strings with "=", ms timestamps 1970..2099, dates, month-year, floats with 2-digit dyadic fractions so that binary64 rendering is exact)',
                        'binary64 arithmetic of modp_dtoa/fast_atof is not modelled (C08 float half)', 'schemas: FIX42UTEST and the stock FIX44 (both compiled from the current tree and dumped into the generated tables)',
                        'the theorem hypothesis Conforms excludes a Length field that is not followed by its data field (generated here as a lone SignatureLength 93 in the trailer): those messages are judged by the correspondence and the oracle only; coverage.theorem_hypothesis counts them',
                        'Length/data pairs inside repeating groups and the trailer Signature pair are C06 findings and are generated there, not here']
    res.cov['rule'] = ('schema-driven messages: random message type, optional subset with p in {0,.15,.5,.9,1}, type-domain values, group counts 0..4 nested to the schema depth, Length/data pairs in header/body, '
                       'shuffled insertion order; plus every message type once with all optional fields; distinct by line; non-trivial = at least 6 items')
    vlib.decide_stream(res, module='Fix8Model.Props.C01', theorems=THEOREMS, stream='codec', harness_name='codec', lines=lines,
                       oracle=make_oracle(sc, meta), nontrivial=lambda l: l if l.count('=') >= 7 else None,
                       harness_kw=dict(need_schema=True), extra_obligation_problems=errs)
    # the same on the stock FIX44 schema (generated tables: SchemaWF re-proved by the kernel in C01_fix44_wf)
    if not replay:
        errs44 = gen_facts.generate(['schema_fix44'])
        sc44 = cc.schema44()
        rng44 = vlib.rng_for('C01-44', res.seed)
        l44, m44 = [], {}
        for i in range(150 if res.tier == 'quick' else 6000):
            mt, items = cc.gen_message_capped(rng44, sc44, trailer_plain=0.25)
            l, its = cc.spec_line('rt', mt, items, rng44, want_items=True)
            l44.append(l)
            m44[l] = (mt, its)
        for mt, _ in sc44['msgs']:
            mt2, items = cc.gen_message_capped(rng44, sc44, p_opt=1.0, msgtype=mt)
            l, its = cc.spec_line('rt', mt2, items, rng44, want_items=True)
            l44.append(l)
            m44[l] = (mt2, its)
        res.cov['fix44'] = cc.run_second_schema(res, l44, make_oracle(sc44, m44))
        res.cov['fix44']['message_types'] = len({l.split()[1] for l in l44})
        res.cov['fix44']['theorem_hypothesis'] = hypothesis_stat('codec44', l44)
        for e in errs44:
            res.violation(e, 'generated fact for FIX44 failed: ' + e[:200], no_input=True)
    res.cov['theorem_hypothesis'] = hypothesis_stat('codec', [l for l in lines if l.startswith('rt ')])
    res.cov['message_types'] = len({l.split()[1] for l in lines if l.startswith('rt ')})
    res.cov['with_groups'] = sum(1 for l in lines if '[' in l)
    res.cov['with_data'] = sum(1 for l in lines if re.search(r' h?(91|213|349|351|355|359|361|363|365)=', l))
