"""C17 sent application messages are stored exactly as transmitted: theorems Props.C17 + stream `sess`"""
import vlib
from props import sess_common as sc

THEOREMS = ['C17_step', 'C17_run', 'C17_stored', 'C17_only_application', 'batchX_stored', 'C17X_step', 'C17X_run', 'C17X_stored', 'C17X_only_application', 'C17_finding_batch_tail', 'C17_finding_custom_seqnum']
KLASS = 'custom-or-no-increment-send'


class Oracle:
    """every new application frame cut from the socket writes (no PossDupFlag, Message::is_admin false) is remembered with its
    bytes under its MsgSeqNum; `get n` must return exactly those bytes; numbers used only by administrative frames must
    not be stored.  Histories with an application send using custom_seqnum / no_increment are the excluded class."""

    def __init__(self):
        self.reset('mem')

    def reset(self, pk):
        self.pk = pk
        self.sent = {}        # seq -> hex of the new application frame
        self.admin = set()    # numbers carried by new administrative frames
        self.tainted = False

    def __call__(self, line, out):
        evs, summ = sc.parse(out)
        w = line.split()
        if w[0] == 'new':
            self.reset(w[1])
        if out.startswith(('no-session', 'bad-op', 'skipped', 'abort')):
            return (None, None)
        if w[0] == 'app' and (w[2] != '0' or w[3] == '1'):
            self.tainted = True
        for k, f in evs:
            if k == 'out' and sc.is_new(f) and f.get('seq', '-').isdigit():
                n = int(f['seq'])
                if f.get('adm') == '0':
                    self.sent.setdefault(n, f.get('hex'))
                else:
                    self.admin.add(n)
        if w[0] != 'get' or self.pk == 'none':
            return (None, None)
        n = int(w[1])
        st = next((d for k, d in evs if k == 'stored'), None)
        stored_hex = None if st is None or 'none' in st or not st else st.get('hex')
        if st is not None and not st:
            stored_hex = None
        m = [d for k, d in evs if k == 'stored']
        is_none = 'stored{none}' in out
        klass = KLASS if self.tainted else None
        if n in self.sent:
            ok = (not is_none) and stored_hex == self.sent[n]
            return (ok, klass)
        if n in self.admin or True:
            # nothing but transmitted application messages may be in the store
            return (is_none, klass)


def run(res, replay=None):
    if replay:
        lines = sc.read_replay(replay)
    else:
        n = (36, 40) if res.tier == 'quick' else (400, 60)
        w = sc.weights(app=24, batch=22, bbatch=0.6 if res.tier == 'quick' else 1.0, adm=7, app_flags=1, adm_flags=1, restart=5, resend_request=5, in_seq=10, test_request=4,
                       corrupt=3, too_high=3, _ext=0.12)
        lines, _ = sc.generate('C17', res.seed, n[0], n[1], w, persist=('mem', 'file'))
        big = ['new file 1 0 0', 'in ' + sc.frame(sc.hdr('A', 1) + [('98', '0'), ('108', '30')])[0].hex(),
               'bbatch 2000 ' + ' '.join(str(7000 + i) for i in range(46))] + ['get %d' % i for i in range(1, 50)]
        lines = vlib.corpus_lines('C17') + big + lines
    res.assumptions += ['12% of the segments (marked X; modelled by Sess.stepX, theorems C17X_*) add application retransmissions alone and in batches and application sends whose socket write fails, followed by further sends and restarts', 'initiator role, _always_seqnum_assign = false; the bytes of a frame are what the connection passes to send(); stored bytes are what Persister::get(seqnum) returns afterwards (MemoryPersister and FilePersister)',
                        'in the Lean model a frame and its stored copy are the same abstract record; equality of the real bytes is checked by the oracle on every run']
    res.cov['rule'] = ('segments over MemoryPersister / FilePersister: single sends, batches of 1..6, batches of 42..49 orders with 2000-byte Text (beyond the 82240-byte batch buffer), administrative sends and replies, '
                       'resend answers, restarts; after every send `get` of the numbers just used and at the end of each segment `get` of every number')
    r = sc.decide(res, pid='C17', theorems=THEOREMS, lines=lines, oracle=Oracle())
    if r:
        res.cov['distribution'] = sc.stats(r['lines'], r['impl'])
        res.cov['stored_frames_compared'] = sum(1 for l, o in zip(r['lines'], r['impl']) if l.startswith('get') and 'stored{dec=ok' in o)
