"""C27 file persister crash safety: theorems Props.C27 + stream `crash` (write budget = crash point, reopen)"""
import vlib

THEOREMS = ['C27_crash_safe', 'C27_further_stores', 'C27_repeated_crashes', 'reopen_safe', 'C27_finding_message_before_control']


def writes_of(ops):
    """upper bound of the number of write() calls a history makes (put = 2, cput = 1)"""
    return sum(2 if o[0] == 'put' else 1 for o in ops)


def gen_hist(rng, nops, ctrl_first):
    ops = []
    if ctrl_first:
        ops.append(('cput', rng.randrange(1, 50), rng.randrange(1, 50)))
    pool = [rng.randrange(1, 12) for _ in range(4)]
    for _ in range(nops):
        if rng.random() < 0.65:
            k = rng.choice(pool) if rng.random() < 0.7 else rng.randrange(0, 15)
            ln = rng.choice((0, 1, 3, 10, 40))
            ops.append(('put', k, bytes(rng.randrange(65, 91) for _ in range(ln))))
        else:
            ops.append(('cput', rng.randrange(1, 50), rng.randrange(1, 50)))
    return ops


def render(ops):
    out = []
    for o in ops:
        if o[0] == 'put':
            out.append('put %d %s' % (o[1], o[2].hex() or '-'))
        else:
            out.append('cput %d %d' % (o[1], o[2]))
    return out


def gen(rng, n, maxops, all_points):
    lines = []
    for h in range(n):
        ctrl_first = rng.random() < 0.8
        ops = gen_hist(rng, rng.randrange(1, maxops + 1), ctrl_first)
        more = gen_hist(rng, rng.randrange(0, 4), False)
        W = writes_of(ops)
        points = range(0, W + 1) if all_points else sorted(set(rng.randrange(0, W + 1) for _ in range(3)) | {W})
        keys = sorted({o[1] for o in ops + more if o[0] == 'put'} | {1, 2})
        for k in points:
            lines.append('open file')
            lines.append('budget %d' % k)
            lines += render(ops)
            lines.append('reopen')
            lines += ['get %d' % x for x in keys] + ['cget']
            # second life: half of the runs crash again, at a point of their own (C27_repeated_crashes)
            if more and rng.random() < 0.5:
                lines.append('budget %d' % rng.randrange(0, writes_of(more) + 1))
            lines += render(more)
            lines += ['get %d' % x for x in keys] + ['cget']
            lines.append('reopen')
            lines += ['get %d' % x for x in keys] + ['cget']
            # third life, sometimes: stores again what the crashes may have cut, then a last reopen
            if rng.random() < 0.3:
                third = gen_hist(rng, rng.randrange(1, 4), False)
                third = [(o[0], rng.choice(keys), o[2]) if o[0] == 'put' and rng.random() < 0.6 else o for o in third]
                if rng.random() < 0.5:
                    lines.append('budget %d' % rng.randrange(0, writes_of(third) + 1))
                lines += render(third)
                lines.append('reopen')
                lines += ['get %d' % x for x in keys] + ['cget']
    return lines


class Oracle:
    """the property itself, tracked independently: completed stores must come back identical, nothing
    that was never stored for a number may come back, the control record is the last completed one"""
    def __init__(self):
        self.reset()
    def reset(self):
        self.done, self.started, self.ctrl, self.budget, self.msg_before_ctrl, self.any_ctrl = {}, {}, None, None, False, False
    def __call__(self, line, out):
        w = line.split()
        klass = 'message-before-control' if self.msg_before_ctrl else None
        if w[0] == 'open':
            self.reset(); return (out == 'ok', None)
        if w[0] == 'budget':
            self.budget = int(w[1]); return (out == 'ok', None)
        if w[0] == 'reopen':
            self.budget = None; return (out == 'ok', None)
        if w[0] == 'put':
            k = int(w[1]); b = bytes.fromhex(w[2]) if w[2] != '-' else b''
            if out == 'true':
                if not self.any_ctrl:
                    self.msg_before_ctrl = True
                if k == 0 or k in self.done:
                    # a number whose message was lost to the first control store (known finding) can be stored again
                    return (False, klass if k != 0 else None)
                self.done[k] = b; self.started.setdefault(k, []).append(b)
            else:
                self.started.setdefault(k, []).append(b)   # the data write may have completed
            return (None, None)
        if w[0] == 'cput':
            if out == 'true':
                self.ctrl = (int(w[1]), int(w[2])); self.any_ctrl = True
            return (None, None)
        if w[0] in ('get', 'cget') and self.budget is not None:
            # a life under a crash point: past that point the process is dead, what its memory holds (e.g. `_index[0]`
            # updated before the failed write) is not observable; the property speaks about what is read after the reopen
            return (None, None)
        if w[0] == 'get':
            k = int(w[1])
            if out == 'msg none':
                return ((k not in self.done), klass)
            got = bytes.fromhex(out.split()[1]) if out.split()[1] != '-' else b''
            if k in self.done:
                return (got == self.done[k], klass)
            return (got in self.started.get(k, []), klass)   # never bytes that were not stored for it
        if w[0] == 'cget':
            return (out == ('ctrl %d,%d' % self.ctrl if self.ctrl else 'ctrl none'), klass)
        return (None, None)


def run(res, replay=None):
    rng = vlib.rng_for('C27', res.seed)
    if replay:
        lines = [l.strip() for l in open(replay) if l.strip() and not l.startswith('#')]
    else:
        lines = vlib.corpus_lines('C27') + (gen(rng, 12, 6, True) if res.tier == 'quick' else gen(rng, 150, 9, True))
    res.level = 'proof'
    res.assumptions += ['crash model: the process dies between completed write() system calls; torn writes, fsync and page-cache loss are outside the property',
                        'a crash after k completed writes is realised by failing every later write() on the two store files (interposed write, errno EIO), destroying the object and reopening the files',
                        'histories that store a message before any control record are the known finding message-before-control (index record 0 is overwritten by the first control store)']
    res.cov['rule'] = ('histories of 1..6 (quick) / 1..9 (thorough) put/control stores, 80% starting with a control store; EVERY crash point 0..W (W = number of write() calls of the history) is run: '
                       'budget, history, reopen, read back every key and the control record, further stores (half of them under a second crash point), read back, reopen, read back, in 30% a third life (again with or without a crash point) and a last reopen. distinct by (history, crash point, position)')
    res.cov['exhaustive'] = False
    cnt = [0]
    def nontrivial(l):
        cnt[0] += 1
        return (cnt[0], l) if l.startswith(('get', 'cget', 'put', 'cput')) else None
    r = vlib.decide_stream(res, module='Fix8Model.Props.C27', theorems=THEOREMS, stream='crash', harness_name='store',
                           lines=lines, oracle=Oracle(), nontrivial=nontrivial,
                           harness_kw=dict(need_schema=True, extra_flags=['-ldl']), stateful=True)
    if r:
        res.cov['crash_runs'] = sum(1 for l in lines if l.startswith('budget'))
