"""C21 two fix8 sessions deliver every application message across failures: theorems Props.C21 + stream `duo`
(harness/duo.cpp: a REAL initiator Session and a REAL acceptor Session, each over its own FilePersister, the frames either
writes are queued by the harness and delivered, or lost, as the script says; Drivers/DuoD.lean: the two-party model).
The oracle is an independent statement of the clauses of the property on the implementation's outputs."""
import itertools, re
import vlib
from props import sess_common as sc
from props.c20 import resilient_run

THEOREMS = ['C21_delivery', 'C21_reestablishes', 'C21_finding_loss_at_disconnect', 'C21_finding_loss_at_disconnect_acceptor_side',
            'C21_finding_send_before_logon']
HARNESS_KW = dict(need_schema=True, extra_flags=['-ldl'], deps=['runtime/session.cpp', 'runtime/persist.cpp', 'runtime/filepersist.cpp'])
CLASSES = ('loss-at-disconnect', 'send-before-logon')

_SIDE = re.compile(r'([AB])\| (?:gone ctrl=(\S+)|st=(\S+) ns=(\d+) nr=(\d+) ctrl=(\S+) sd=(\d))')
_TAIL = re.compile(r'ab=(\d+) ba=(\d+) up=(\d)$')
_EV = re.compile(r'(abs|out|dlv|adm)\{([^}]*)\}')


def parse(out):
    """-> (micros [(side, [(kind, dict)])], {side: summary dict}, ab, ba, up)"""
    if '||' not in out:
        return None
    body, tail = out.rsplit('||', 1)
    micros = []
    for part in body.split('/ '):
        part = part.strip()
        if len(part) > 1 and part[1] == ':':
            micros.append((part[0], [(m.group(1), sc.kv(m.group(2))) for m in _EV.finditer(part)]))
    summ = {}
    for m in _SIDE.finditer(tail):
        if m.group(3) is None:
            summ[m.group(1)] = dict(gone=True, ctrl=m.group(2))
        else:
            summ[m.group(1)] = dict(gone=False, st=m.group(3), ns=int(m.group(4)), nr=int(m.group(5)), ctrl=m.group(6), sd=int(m.group(7)))
    t = _TAIL.search(tail.strip())
    return micros, summ, (int(t.group(1)), int(t.group(2)), int(t.group(3))) if t else None


class Oracle:
    """Clauses: (1) while connected nobody has been stopped; (2) first deliveries in send order without skipping, every
    re-delivery flagged PossDup; (3) whenever the connection is up, both Logons have been processed and nothing is in
    flight: every message sent so far has been delivered and both sessions are continuous.
    The oracle keeps its own queues of frames in flight (from the out{} events it sees) and its own notion of `up`."""

    def __init__(self):
        self.quiet_points = 0
        self.reset()

    def reset(self):
        self.up = False
        self.q = {'A': [], 'B': []}         # frames written by A (towards B) / by B
        self.sent = {'A': [], 'B': []}
        self.got = {'A': [], 'B': []}       # (pid, possdup) delivered AT that side
        self.logons = {'A': False, 'B': False}   # that side has processed the other's Logon on this connection
        self.prev = {}
        self.taint = None

    def __call__(self, line, out):
        w = line.split()
        if w[0] == 'new':
            self.reset()
            p = parse(out)
            if p:
                self.prev = p[1]
            return (None, None)
        p = parse(out)
        if p is None or out.startswith(('bad-op', 'no-world', 'skipped', 'abort')):
            return (None, None)
        micros, summ, tail = p
        prev = self.prev
        self.prev = summ
        klass = None
        live = lambda side: side in prev and not prev[side]['gone'] and prev[side]['sd'] == 0
        other = {'A': 'B', 'B': 'A'}
        if w[0] == 'connect':
            if not self.up:
                self.up = True
                self.logons = {'A': False, 'B': False}
        elif w[0] in ('drop', 'restartA', 'restartB'):
            if self.q['A'] or self.q['B']:
                klass = 'loss-at-disconnect'
            self.q = {'A': [], 'B': []}
            self.up = False
        elif w[0] in ('sendA', 'sendB'):
            side = w[0][-1]
            if live(side):
                self.sent[side].append(w[1])
                if side == 'B' and prev[side]['st'] != 'continuous':
                    klass = 'send-before-logon'
        elif w[0] in ('dAB', 'dBA'):
            src = w[0][1]
            if self.q[src]:
                f = self.q[src].pop(0)
                if f.get('t') == 'A' and live(other[src]):
                    self.logons[other[src]] = True
        for side, evs in micros:
            for kd, d in evs:
                if kd == 'out' and self.up:
                    self.q[side].append(d)
                elif kd == 'dlv':
                    self.got[side].append((d.get('pid'), d.get('pd') == '1'))
        if klass:
            self.taint = self.taint or klass
        if tail and (tail[0], tail[1]) != (len(self.q['A']), len(self.q['B'])):
            raise RuntimeError('harness channel lengths %s differ from the oracle\'s account %d/%d at: %s' % (tail, len(self.q['A']), len(self.q['B']), line))
        ok, why = True, []
        # (1) while connected nobody has been stopped
        if self.up:
            for side in 'AB':
                s_ = summ.get(side)
                if s_ is None or s_['gone'] or s_['sd'] != 0:
                    ok = False; why.append('%s stopped while connected' % side)
        # (2) first deliveries in send order, re-deliveries flagged
        for rcv in 'AB':
            snd = other[rcv]
            seen, firsts = set(), []
            for pid, pd in self.got[rcv]:
                if pid in seen:
                    if not pd:
                        ok = False; why.append('re-delivery of %s at %s without PossDup' % (pid, rcv))
                else:
                    seen.add(pid); firsts.append(pid)
            if firsts != self.sent[snd][:len(firsts)]:
                ok = False; why.append('first deliveries at %s out of send order' % rcv)
        # (3) quiescent and logged on: everything delivered, both continuous
        if self.up and not self.q['A'] and not self.q['B'] and self.logons['A'] and self.logons['B']:
            self.quiet_points += 1
            for rcv in 'AB':
                if set(self.sent[other[rcv]]) - {p_ for p_, _ in self.got[rcv]}:
                    ok = False; why.append('messages of %s never delivered' % other[rcv])
                s_ = summ.get(rcv)
                if s_ is None or s_['gone'] or s_['st'] != 'continuous':
                    ok = False; why.append('%s not continuous' % rcv)
        if ok:
            return (True, None)
        self.why = why
        return (False, klass or self.taint)


# ------------------------------------------------------------------------------------------------ generator
def segment(r, lines, free, nops):
    lines.append('new %d' % (1 if r.random() < 0.7 else 0))
    pid = [1000]
    up, ab, ba, b_on = False, 0, 0, False

    def npid():
        pid[0] += 1
        return pid[0]

    for _ in range(nops):
        x = r.random()
        if not up:
            if x < 0.75 or not free:
                lines.append('connect'); up, ab, ba, b_on = True, 1, 0, False
            else:
                lines.append(r.choice(('sendA %d' % npid(), 'sendB %d' % npid(), 'dAB', 'drop', 'restartA', 'restartB', 'tick 5')))
            continue
        if x < 0.22:
            lines.append('sendA %d' % npid()); ab += 1
        elif x < 0.40:
            if b_on or free:
                lines.append('sendB %d' % npid()); ba += 1
            else:
                lines.append('dAB')
                if ab: ab -= 1; ba += 0 if b_on else 1; b_on = True
        elif x < 0.62:
            lines.append('dAB')
            if ab:
                ab -= 1
                if not b_on:
                    b_on = True; ba += 1
        elif x < 0.84:
            lines.append('dBA')
            if ba: ba -= 1
        elif x < 0.88:
            lines.append('tick %d' % r.choice((1, 250, 61000)))
        elif x < 0.90:
            lines.append('connect')
        else:
            if not free:
                # a clean schedule loses the connection only with nothing in flight: drain first
                while ab or ba:
                    if ab:
                        lines.append('dAB'); ab -= 1
                        if not b_on:
                            b_on = True; ba += 1
                    if ba:
                        lines.append('dBA'); ba -= 1
            lines.append(r.choice(('drop', 'drop', 'restartA', 'restartB')))
            up, ab, ba, b_on = False, 0, 0, False
    # drain at the end so that the last quiescent point is checked
    if up:
        for _ in range(ab + 1):
            lines.append('dAB')
        for _ in range(ba + 2):
            lines.append('dBA')


def generate(seed, nseg, nops):
    r = vlib.rng_for('C21', seed)
    lines = []
    for _ in range(nseg):
        segment(r, lines, free=r.random() < 0.3, nops=r.randrange(max(5, nops // 2), nops + 1))
    return lines


def exhaustive(depth):
    """every schedule of `depth` ops over {sendA, sendB, dAB, dBA, drop, restartA, restartB, connect} after an established connection,
    followed by a reconnection and a drain"""
    alpha = ['sendA', 'sendB', 'dAB', 'dBA', 'drop', 'restartA', 'restartB', 'connect']
    lines = []
    for combo in itertools.product(alpha, repeat=depth):
        lines += ['new 1', 'connect', 'dAB', 'dBA']
        n = 3000
        for op in combo:
            if op.startswith('send'):
                n += 1; op = '%s %d' % (op, n)
            lines.append(op)
        lines += ['connect', 'dAB', 'dBA', 'dAB', 'dBA', 'dAB', 'dBA']
    return lines


def compare(line, impl, model):
    return sc.canon(impl) == model


def run(res, replay=None):
    if replay:
        lines = sc.read_replay(replay)
    else:
        if res.tier == 'quick':
            lines = generate(res.seed, 60, 26) + exhaustive(2)
        else:
            lines = generate(res.seed, 400, 40) + exhaustive(4)
        lines = vlib.corpus_lines('C21') + lines
    res.assumptions += ['two REAL sessions in one process (initiator: ClientConnection, acceptor: ServerConnection, pm_coro, timer threads stopped, virtual clock), each with its own FilePersister in a temp dir; no SessionConfig, default login parameters (+ enforce_compids as scripted)',
                        'the wire is the harness: every frame is captured at the send() call of the writing session and handed to process() of the receiving session when the script says so (FIXReader / socket framing is C15\'s subject); drop = both sessions stop(), frames in flight discarded',
                        'restart of a side = its Session, Connection and FilePersister objects are destroyed and the persister is re-opened over the same files (a kill inside a system call is C27\'s subject)',
                        'every connect builds new Session objects over the existing persisters (as SessionInstance does for an acceptor and as a restarted initiator does); application sends while no live session exists are refused and do not count as sent']
    res.cov['rule'] = ('segments = fresh persisters x CompID enforcement; 70%% clean schedules (sends on both sides interleaved with deliveries in any order, initiator sends before the Logon reply, '
                       'drops / restarts of either side only with nothing in flight, reconnects, clock), 30%% free schedules (drops and restarts with frames in flight, acceptor sends before the Logon, sends while down) '
                       '+ every schedule of %d ops over {sendA, sendB, dAB, dBA, drop, restartA, restartB, connect} after an established connection, each followed by a reconnection and a drain; distinct by (position, line)'
                       % (2 if res.tier == 'quick' else 4))
    oracle = Oracle()
    cnt = [0]

    def nontrivial(l):
        cnt[0] += 1
        return (cnt[0], l[:40]) if not l.startswith('tick') else None

    real_run = vlib.run_harness
    transient = []
    vlib.run_harness = resilient_run(real_run, transient)
    try:
        r = vlib.decide_stream(res, module='Fix8Model.Props.C21', theorems=THEOREMS, stream='duo', harness_name='duo', lines=lines, oracle=oracle,
                               nontrivial=nontrivial, harness_kw=HARNESS_KW, stateful=True, compare=compare, segment_start=lambda x: x.startswith('new'))
    finally:
        vlib.run_harness = real_run
    if transient:
        res.notes += transient
    if r:
        d = {}
        for l, o in zip(r['lines'], r['impl']):
            k = l.split()[0]
            if k in ('dAB', 'dBA'):
                k += ':app' if 'dlv{' in o else (':logon' if 't=A,' in o else (':other' if 'abs{' in o else ':empty'))
            d[k] = d.get(k, 0) + 1
        res.cov['distribution'] = d
        res.cov['quiescent_established_points_checked'] = oracle.quiet_points
        hits = res.cov.get('known_class_hits', {})
        missing = [c for c in CLASSES if c not in hits]
        if missing and not replay and not res.violations:
            res.notes.append('known finding(s) no longer reproduce: %s' % ', '.join(missing))
