"""C29 rotation: theorems Props.C29 + stream `rot` (FileLogger::rotate, FilePersister purge rotation on real directories, ASan)"""
import vlib, gen_facts

THEOREMS = ['C29_log_inbounds', 'C29_purge_inbounds', 'C29_log_shift', 'C29_log_holes', 'C29_log_untouched', 'C29_log_no_rotation',
            'C29_log_live', 'C29_purge_shift', 'C29_purge_untouched']
MAXROT = 1024


def fmt(xs):
    return ','.join(map(str, sorted(set(xs)))) or '-'


def gen_gens(rng, r):
    n = min(r, MAXROT)
    hi = min(n, 12) + 3
    c = rng.random()
    if c < 0.25:
        g = list(range(0, rng.randrange(0, hi + 1)))                      # contiguous from the live file
    elif c < 0.6:
        g = [k for k in range(0, hi + 1) if rng.random() < 0.55]          # holes
    elif c < 0.75:
        g = [k for k in range(1, hi + 1) if rng.random() < 0.6]           # live file missing
    elif c < 0.9 and n >= 3:
        g = [0] + [k for k in range(max(1, n - 3), n + 4) if rng.random() < 0.6]   # around the cap
    else:
        g = [rng.randrange(0, 1200) for _ in range(rng.randrange(0, 6))]
    return g


def gen(rng, n, thorough):
    lines = []
    counts = list(range(0, 1101)) if thorough else [0, 1, 2, 3, 5, 1023, 1024, 1025, 1100] + [rng.randrange(0, 1101) for _ in range(6)] + [rng.randrange(1, 9) for _ in range(n)]
    for r in counts:
        for rep in range(2 if not thorough else 3):
            o = [i for i in range(8) if rng.random() < 0.4]
            if rng.random() < 0.6:
                a = rng.random() < 0.35
                f = rng.random() < (0.6 if a else 0.2)
                lines.append('log %d %d %d %s %s' % (r, a, f, fmt(gen_gens(rng, r)), fmt(o)))
            else:
                g0 = gen_gens(rng, r)
                g1 = g0 if rng.random() < 0.6 else gen_gens(rng, r)
                lines.append('purge %d %s %s %s' % (r, fmt(g0), fmt(g1), fmt(o)))
    return lines


def parse_listing(out):
    d = {}
    if out.startswith('init-failed '):
        return None
    for it in out.split():
        if it == 'empty':
            continue
        k, v = it.split('=')
        d[k] = int(v)
    return d


def nums(s):
    return [] if s == '-' else [int(x) for x in s.split(',')]


def rotate_expect(prev, fam, n, problems, new):
    """the property, stated on one chain: existing generations shift up by one inside 1..n"""
    for k in range(1, n + 1):
        a = prev.get('g%d.%d' % (fam, k - 1))
        if a is not None and new.get('g%d.%d' % (fam, k)) != a:
            problems.append('g%d.%d should hold what g%d.%d held (%s) but holds %s' % (fam, k, fam, k - 1, a, new.get('g%d.%d' % (fam, k))))


def oracle(line, out):
    w = line.split()
    if out.startswith(('abort', 'bad-op', 'skipped')):
        return (False, None)
    new = parse_listing(out)
    if new is None:
        return (False, None)
    problems = []
    if w[0] == 'log':
        r, a, f = int(w[1]), w[2] == '1', w[3] == '1'
        prev = {('g0.%d' % k): 100000 + k for k in nums(w[4])}
        prev.update({('o%d' % i): 900000 + i for i in nums(w[5])})
        n = min(r, MAXROT)
        fams = [0]
        stages = []
        if r > 0 and not a:
            stages.append('rot')
        if f and r > 0:
            stages.append('rot')
        cur = dict(prev)
        # intermediate state after the first of two rotations is not observable: only single rotations are checked strictly
        if len(stages) == 1:
            rotate_expect(cur, 0, n, problems, new)
        if not stages:
            for k, v in prev.items():
                if k != 'g0.0' and new.get(k) != v:
                    problems.append('%s changed without rotation' % k)
            if a and 'g0.0' in prev and new.get('g0.0') != prev['g0.0']:
                problems.append('append-mode live file lost its content')
        if not a and new.get('g0.0') != 0:
            problems.append('live file of a non-append logger is not new and empty')
        rot_count = len(stages)
    else:
        r = int(w[1])
        prev = {('g0.%d' % k): 100000 + k for k in nums(w[2])}
        prev.update({('g1.%d' % k): 200000 + k for k in nums(w[3])})
        prev.update({('o%d' % i): 900000 + i for i in nums(w[4])})
        n = min(r, MAXROT)
        fams = [0, 1]
        if r > 0:
            rotate_expect(prev, 0, n, problems, new)
            rotate_expect(prev, 1, n, problems, new)
        else:
            for k, v in prev.items():
                if k not in ('g0.0', 'g1.0') and new.get(k) != v:
                    problems.append('%s changed without rotation' % k)
        if new.get('g0.0') != 0 or new.get('g1.0') != 0:
            problems.append('purged store files are not new and empty')
        rot_count = 1 if r > 0 else 0
    # never touches other files; names above the managed range stay; nothing is created besides the live file; nothing is duplicated
    for k, v in prev.items():
        if k.startswith('o') and new.get(k) != v:
            problems.append('other file %s touched' % k)
        if k.startswith('g'):
            fam, idx = k[1:].split('.')
            if int(idx) > n + rot_count - 1 and int(idx) > n and new.get(k) != v:
                problems.append('%s is outside the managed generations 1..%d but changed' % (k, n))
    for k in new:
        if k.startswith('?'):
            problems.append('unexpected file ' + k)
        if k not in prev and not k.endswith('.0') and k.startswith('o'):
            problems.append('file created: ' + k)
    vals = [v for v in new.values() if v]
    if len(vals) != len(set(vals)):
        problems.append('a content was duplicated')
    if any(v and v not in prev.values() for v in new.values()):
        problems.append('content from nowhere')
    return (not problems, None)


def run(res, replay=None):
    rng = vlib.rng_for('C29', res.seed)
    errs = gen_facts.generate(['consts'])
    if replay:
        lines = [l.strip() for l in open(replay) if l.strip() and not l.startswith('#')]
    else:
        lines = vlib.corpus_lines('C29') + gen(rng, 40, res.tier == 'thorough')
    res.assumptions += ['the directory is modelled as a map from names to contents; rename() of a missing source fails and is ignored (as the code ignores it); rename and open are atomic',
                        'compressed (.gz) logs are not exercised', 'Logger::max_rotation is extracted from include/fix8/logger.hpp into Gen/Consts.lean on every run',
                        'out-of-bounds indexing in the real code is observed through ASan (the model proves its own name-list accesses in range)']
    res.cov['rule'] = ('rotation counts {0,1,2,3,5,1023,1024,1025,1100} + random (quick) / every count 0..1100 (thorough) x pre-existing generation sets (contiguous, with holes, live file missing, around the cap, '
                       'far beyond the cap) x other files x append/force flags, for FileLogger and for the FilePersister purge; real directories; distinct by line; non-trivial = rotation count > 0')
    vlib.decide_stream(res, module='Fix8Model.Props.C29', theorems=THEOREMS, stream='rot', harness_name='rot',
                       lines=lines, oracle=oracle, nontrivial=lambda l: l if int(l.split()[1]) > 0 else None,
                       harness_kw=dict(need_lib=True), extra_obligation_problems=errs)
