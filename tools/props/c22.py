"""C22 heartbeat / test-request supervision: theorems Props.C22 + stream `sesshb` (`hb` lines: a real established
FIX8::Session whose heartbeat_service is called at scripted virtual times, with inbound frames and application sends)"""
import contextlib
import vlib, gen_facts

THEOREMS = ['C22_heartbeat_when_idle', 'C22_heartbeat_only_when_idle', 'C22_testreq_iff', 'C22_testreq_only_after_120pc',
            'C22_testreq_by', 'C22_testreq_threshold_within_1s', 'C22_testreq_shape', 'C22_testreq_answered',
            'C22_heartbeat_resumes', 'C22_logout_iff', 'C22_logout_terminates', 'C22_logout_only_for_unanswered_testreq',
            'C22_logout_when_unanswered', 'C22_finding_logout_at_next_tick', 'C22_finding_logout_witness']
S = 1000000000
KNOWN_CLASS = 'logout-at-next-tick'


@contextlib.contextmanager
def chunked_harness_runs(n=150):
    """every scenario line builds a whole session + connection under ASan/UBSan (20..100 ms depending on machine load);
    vlib.run_harness allows ~60 s per harness process, so the (stateless) script is fed in pieces of n lines"""
    orig = vlib.run_harness

    def run(exe, lines, **kw):
        outs, aborts = [], []
        for i in range(0, len(lines), n):
            o, a = orig(exe, lines[i:i + n], **kw)
            outs += o
            aborts += [(p + i, e) for p, e in a]
        return outs, aborts
    vlib.run_harness = run
    try:
        yield
    finally:
        vlib.run_harness = orig


def jitter(rng):
    c = rng.random()
    if c < 0.55:
        return 0
    if c < 0.7:
        return rng.choice([-1, 1])
    if c < 0.85:
        return rng.randrange(-400, 400) * 1000000
    return rng.randrange(-S // 2, S // 2)


def gen_line(rng, H=None, pattern=None):
    H = H if H is not None else rng.choice([1, 2, 3, 4, 5, 6, 7, 9, 10, 11, 14, 15, 20, 30, 45, 60, 90, 119, 120, rng.randrange(1, 121)])
    role = rng.choice('IA')
    hb0 = rng.choice([30, 10, 1, 0, 120])
    silent = 1 if rng.random() < 0.12 else 0
    t0 = rng.choice([0, 0, 5 * S, 123456789, rng.randrange(0, 100 * S)])
    hb20 = H + H // 5
    pattern = pattern or rng.choice(['silent', 'silent', 'peerhb', 'answer', 'appsend', 'testreqs', 'mix', 'mix', 'irregular', 'logout', 'gap', 'gap'])
    horizon = min(2 * hb20 + H + 8, 330)
    evs = []         # (time, text)
    cadence_irregular = pattern in ('irregular',) or rng.random() < 0.2
    t = t0
    ticks = []
    while t < t0 + horizon * S:
        t += S if not cadence_irregular else rng.choice([S, S, S // 2, S + S // 2, 3 * S, rng.randrange(1, 4 * S), hb20 * S // 2 + 1])
        ticks.append(max(t0, t + jitter(rng)))
    ticks = sorted(ticks)
    for x in ticks:
        evs.append((x, 'T%d' % x))
    span = ticks[-1] - t0

    def at(frac):
        return t0 + int(span * frac)
    if pattern == 'peerhb':
        k = t0
        step = max(1, H) * S
        while k < t0 + span:
            k += step + rng.choice([0, 0, -1, 1, S // 3])
            if rng.random() < 0.9:
                evs.append((k, 'R%d,0' % k))
    elif pattern == 'answer':
        # the peer goes quiet, and answers the TestRequest after a delay (before or after the next tick)
        tr = t0 + (hb20 + 1) * S
        delay = rng.choice([S // 10, S // 2, S - 1, S, S + 1, 2 * S, 5 * S])
        evs.append((tr + delay, 'R%d,0,%s' % (tr + delay, b'TEST'.hex())))
        evs.append((tr + delay + H * S // 2, 'R%d,0' % (tr + delay + H * S // 2)))
    elif pattern == 'appsend':
        k = t0
        while k < t0 + span:
            k += rng.choice([S // 2, S, max(1, H - 1) * S, H * S, H * S - 1, H * S + 1])
            evs.append((k, 'S%d' % k))
        if rng.random() < 0.5:
            evs.append((at(0.4), 'R%d,D' % at(0.4)))
    elif pattern == 'testreqs':
        for _ in range(rng.randrange(1, 5)):
            k = at(rng.random())
            idv = rng.choice([b'TEST', b'ping', b'A', b'x y', b'1=2', bytes([rng.randrange(33, 127) for _ in range(rng.randrange(1, 12))])])
            evs.append((k, 'R%d,1,%s' % (k, idv.hex())))
    elif pattern in ('mix', 'irregular'):
        for _ in range(rng.randrange(2, 9)):
            k = at(rng.random())
            c = rng.random()
            if c < 0.35:
                evs.append((k, 'R%d,0' % k))
            elif c < 0.5:
                evs.append((k, 'R%d,0,%s' % (k, rng.choice([b'TEST', b'other']).hex())))
            elif c < 0.65:
                evs.append((k, 'R%d,1,%s' % (k, rng.choice([b'TEST', b'abc', b'Q']).hex())))
            elif c < 0.75:
                evs.append((k, 'R%d,D' % k))
            elif c < 0.82:
                evs.append((k, 'R%d,G' % k))
            else:
                evs.append((k, 'S%d' % k))
    elif pattern == 'logout':
        k = at(rng.random() * 0.7)
        evs.append((k, 'R%d,5' % k))
    elif pattern == 'gap':
        # a message ahead of sequence early on (the session asks for a resend and waits in resend_request_sent), then the peer is silent or
        # only sends further traffic: the supervision must go on probing and finally log out
        k = at(rng.random() * 0.25)
        evs.append((k, 'R%d,G' % k))
        if rng.random() < 0.4:
            k2 = at(0.3 + rng.random() * 0.3)
            evs.append((k2, rng.choice(['R%d,0', 'R%d,D', 'S%d', 'R%d,G']) % k2))
    evs.sort(key=lambda e: (e[0], e[1][0] != 'R'))     # stable: inbound before a tick of the same instant
    return 'hb %s %d %d %d %d %s' % (role, H, hb0, silent, t0, ';'.join(e[1] for e in evs))


def gen(rng, thorough):
    lines = []
    if thorough:
        for H in range(0, 121):
            for pat in ('silent', 'answer', 'peerhb', 'mix'):
                lines.append(gen_line(rng, H, pat))
        for _ in range(500):
            lines.append(gen_line(rng))
    else:
        for H in (0, 1, 4, 5, 6, 10, 30, 120):
            lines.append(gen_line(rng, H, 'silent'))
        for _ in range(120):
            lines.append(gen_line(rng))
    return lines


# ------------------------------------------------------------------------------------------------
def parse_seg(seg):
    w = seg.split()
    if len(w) < 6:
        return None
    frames = []
    if w[0] != '-':
        for f in w[0].split('|'):
            p = f.split(':')
            d = {'35': p[0]}
            for kv in p[1:]:
                k, v = kv.split('=', 1)
                d[k] = v
            frames.append(d)
    d = dict(kv.split('=', 1) for kv in w[1:] if '=' in kv)
    return dict(frames=frames, st=d.get('st'), sd=d.get('sd') == '1')


def oracle(line, out):
    """the property, evaluated on what the implementation wrote: own bookkeeping of the last write / last inbound frame /
    pending TestRequest from the OBSERVED frames only"""
    w = line.split()
    if w[0] != 'hb':
        return (None, None)
    if out.startswith(('abort', 'bad-op', 'skipped', 'throw', 'start-failed')) or ' threw' in out:
        return (False, None)
    H, t0 = int(w[2]), int(w[5])
    evs = [e for e in w[6].split(';') if e]
    segs = [parse_seg(s) for s in out.split(' / ')]
    if any(s is None for s in segs) or len(segs) != len(evs) + 1:
        return (False, None)
    if segs[0]['st'] != 'continuous' or [f['35'] for f in segs[0]['frames']] != ['A'] or segs[0]['frames'][0].get('108') != str(H):
        return (False, None)
    last_send = last_recv = t0
    pending = None          # time of the TestRequest that is waiting for its Heartbeat
    dead = False
    hard, early = [], 0
    prev_st = segs[0]['st']
    for e, sg in zip(evs, segs[1:]):
        p = e[1:].split(',')
        now = int(p[0])
        types = [f['35'] for f in sg['frames']]
        if dead:
            if types:
                hard.append('frames written after termination at %d' % now)
            continue
        if e[0] == 'T':
            idle, quiet = now - last_send, now - last_recv
            plain_hb = [f for f in sg['frames'] if f['35'] == '0' and '112' not in f]
            if idle >= H * S and not plain_hb:
                hard.append('tick at %d: nothing sent for %d ns >= H but no Heartbeat' % (now, idle))
            if plain_hb and idle < H * S:
                hard.append('tick at %d: Heartbeat although the last write is only %d ns old' % (now, idle))
            if '1' in types:
                if not 5 * quiet > 6 * H * S:
                    hard.append('tick at %d: TestRequest although only %d ns without inbound traffic (H=%d)' % (now, quiet, H))
                if pending is not None:
                    hard.append('tick at %d: second TestRequest while one is pending' % now)
                tr = [f for f in sg['frames'] if f['35'] == '1'][0]
                if tr.get('112', '-') == '-':
                    hard.append('TestRequest without TestReqID')
                if sg['st'] != 'test_request_sent':
                    hard.append('TestRequest written but state is ' + str(sg['st']))
            elif pending is None and quiet >= (H + H // 5 + 1) * S and '5' not in types:
                hard.append('tick at %d: %d ns without inbound traffic (more than 1.2*H + 1 s) but no TestRequest' % (now, quiet))
            if '5' in types:
                if pending is None:
                    hard.append('tick at %d: Logout without a pending TestRequest' % now)
                elif not 5 * (now - pending) > 6 * H * S:
                    early += 1      # known class: the TestRequest has not been unanswered for the period
                if sg['st'] != 'session_terminated' or not sg['sd']:
                    hard.append('Logout written but the session is not terminated')
                dead = True
            elif pending is not None and last_recv <= pending and 5 * (now - pending) > 6 * H * S + 5 * S:
                hard.append('tick at %d: TestRequest unanswered for more than the period but no Logout' % now)
            if (sg['sd'] or sg['st'] == 'session_terminated') and '5' not in types:
                hard.append('tick at %d ended the session without writing a Logout' % now)
            if [t for t in types if t not in ('0', '1', '5')]:
                hard.append('tick wrote %s' % types)
            if types:
                last_send = now
            if '1' in types:
                pending = now
        elif e[0] == 'R':
            last_recv = now
            if p[1] == 'G':
                # a message ahead of sequence: in the continuous state a ResendRequest and nothing else; in any other state the session stops
                if prev_st == 'continuous':
                    if types != ['2'] or sg['st'] != 'resend_request_sent':
                        hard.append('gap at %d in the continuous state: wrote %s, state %s' % (now, types, sg['st']))
                elif types or not sg['sd']:
                    hard.append('gap at %d in state %s: wrote %s, shutdown=%s' % (now, prev_st, types, sg['sd']))
            elif p[1] == '1':
                want = p[2] if len(p) > 2 else '-'
                if len(sg['frames']) != 1 or types != ['0'] or sg['frames'][0].get('112', '-') != want:
                    hard.append('TestRequest %s at %d not answered by exactly one Heartbeat with that TestReqID' % (want, now))
            elif types:
                hard.append('inbound %s at %d answered with %s' % (p[1], now, types))
            if p[1] == '0' and pending is not None:
                if sg['st'] != 'continuous':
                    hard.append('Heartbeat at %d while a TestRequest was pending left the state %s' % (now, sg['st']))
                pending = None
            if p[1] == '5':
                if not sg['sd']:
                    hard.append('peer logout did not stop the session')
                dead = True
            if types:
                last_send = now
        elif e[0] == 'S':
            if types != ['D']:
                hard.append('application send at %d wrote %s' % (now, types))
            last_send = now
        if sg['st'] == 'session_terminated' or sg['sd']:
            dead = True
        prev_st = sg['st']
    if hard:
        return (False, None)
    if early:
        return (False, KNOWN_CLASS)
    return (True, None)


def nontrivial(line):
    w = line.split()
    return line if w and w[0] == 'hb' and 'T' in w[6] else None


def run(res, replay=None):
    rng = vlib.rng_for('C22', res.seed)
    errs = gen_facts.generate(['sess_consts'])
    if replay:
        lines = [l.strip() for l in open(replay) if l.strip() and not l.startswith('#')]
    else:
        lines = vlib.corpus_lines('C22') + gen(rng, res.tier == 'thorough')
    res.assumptions += ['virtual clock: clock_gettime is interposed in the harness binary (harness/vclock.hpp), sleeps are skipped; the timer thread is stopped and heartbeat_service() is called at the scripted times',
                        'inbound frames are built by the harness in sequence with the right CompIDs (they pass enforce); update_received() is called before process() as FIXReader::read does',
                        'times do not go back; process model pm_thread (synchronous writes); connection stays is_connected(); after shutdown the reader is stopped: no further inbound frame / application send is processed',
                        'the divisor 5 of the 20% allowance and the TestReqID literal are extracted from the source into Gen/SessConsts.lean on every run',
                        'KNOWN FINDING logout-at-next-tick: heartbeat_service keeps no time of the TestRequest; the Logout follows at the next supervision tick']
    res.cov['rule'] = ('hb: both roles (interval from the Connection ctor / from set_hb_interval at logon) x H in {0..120} (quick: boundary values + random; thorough: every H x 4 patterns + random) x timelines of '
                       'supervision ticks at 1 s cadence with ns/ms jitter (exactly at, 1 ns before/after the thresholds) or irregular cadence x traffic patterns: silent peer, peer heartbeats, late / timely answer to the '
                       'TestRequest, application sends around the H boundary, inbound TestRequests with various ids, mixtures, peer logout.  distinct by line; non-trivial = timeline with ticks')
    with chunked_harness_runs():
        vlib.decide_stream(res, module='Fix8Model.Props.C22', theorems=THEOREMS, stream='sesshb', harness_name='sesshb',
                           lines=lines, oracle=oracle, nontrivial=nontrivial,
                           harness_kw=dict(need_schema=True, extra_flags=['-ldl']),
                           extra_obligation_problems=errs)
