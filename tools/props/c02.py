"""C02 encoded messages are well-formed FIX: theorems Props.C02 + stream `codec` (enc: build in a shuffled insertion order, encode)"""
import re
import vlib, gen_facts
from props import codec_common as cc

THEOREMS = ['C02_frame', 'C02_body_length', 'C02_checksum', 'C02_fields_rendered', 'C02_group_rendered', 'C02_sorted_by_position', 'C02_insertion_order_irrelevant', 'C02_msgtype_third']


def gen(rng, sc, n, capped=False):
    lines, meta = [], {}
    gm = cc.gen_message_capped if capped else cc.gen_message
    def add(mt, items, perms):
        for _ in range(perms):
            l, its = cc.spec_line('enc', mt, items, rng, want_items=True)
            lines.append(l)
            meta[l] = (mt, its)
    for i in range(n):
        mt, items = gm(rng, sc, trailer_plain=0.25)
        add(mt, items, rng.choice((1, 2, 3)))
    for mt, _ in sc['msgs']:
        mt2, items = gm(rng, sc, p_opt=1.0, msgtype=mt, trailer_plain=0.5)
        add(mt2, items, 2)
    for target in (99, 100, 101, 999, 1000, 1001, 100, 1000):
        for _ in range(40):
            mt, items = gm(rng, sc, p_opt=rng.choice((0.0, 0.2, 0.5)), with_data=False)
            it2 = cc.pad_to(rng, sc, mt, items, target)
            if it2 is not None:
                add(mt, it2, 1)
                break
    if not capped:
        # long messages whose data fields carry kilobytes of non-ASCII bytes (UTF-8 text, binary): the CheckSum clause on long
        # high-byte content (missed seed C02-4: carry lanes of the word-wise checksum folded too rarely; ASCII never shows it)
        for style in ('ff', 'utf8', 'rand'):
            mt, items = gm(rng, sc, p_opt=0.0, msgtype=b'D', with_data=False)
            def blob(n):
                if style == 'ff':
                    return b'\xff' * n
                if style == 'utf8':
                    return ('\u65e5\u672c\u8a9e'.encode('utf-8') * (n // 9 + 1))[:n]
                return bytes(rng.randrange(128, 256) for _ in range(n))
            extra = []
            for sec, ltag, dtag, n in (('h', 90, 91, 2040), ('h', 212, 213, 2040), ('b', 354, 355, 2040)):
                extra += [cc.Item(sec, ltag, b'%d' % n), cc.Item(sec, dtag, blob(n))]
            items = [i for i in items if i.tag not in (90, 91, 212, 213, 354, 355)] + extra
            add(mt, items, 1)
        # messages filled by copy_legal from a message of another type: the position order is that of the TARGET type
        xl, xm = cc.gen_xcopy(rng, sc, max(30, n // 6))
        lines += xl
        for l in xl:
            meta[l] = ('xcopy', xm[l])
    return lines, meta


def make_oracle(sc, meta):
    xo = cc.xcopy_oracle(sc, {l: v[1] for l, v in meta.items() if v[0] == 'xcopy'})

    def oracle(line, out):
        if line not in meta:
            return (None, None)
        if meta[line][0] == 'xcopy':
            return xo(line, out)
        mt, items = meta[line]
        if not out.startswith('wire '):
            return (False, None)
        wire = cc.unhx(out.split()[1])
        probs = cc.wire_problems(sc, mt, wire)
        # the same content must give the same bytes whatever the insertion order: compare with the position-ordered reference
        ref, _ = cc.ref_encode(sc, mt, items)
        if ref != wire:
            probs.append('bytes differ from the position-ordered rendering of the same content')
        return (not probs, None)
    return oracle


def run(res, replay=None):
    rng = vlib.rng_for('C02', res.seed)
    errs = gen_facts.generate(['consts'])
    sc = cc.schema()
    if replay:
        lines = [l.strip() for l in open(replay) if l.strip() and not l.startswith('#')]
        meta = {}
    else:
        lines, meta = gen(rng, sc, 300 if res.tier == 'quick' else 15000)
        lines = vlib.corpus_lines('C02') + lines
    res.assumptions += ['a message conforms when every group count field equals the number of elements added (the API lets them differ; the encoder then emits what it was given - stated as a hypothesis of the theorems)',
                        'fields without a schema position (user-defined fields added with f8c -F; FieldTraits::getPos reports 0) are emitted first, in insertion order: excluded from the ordering clause',
                        'each Message object is encoded once (a second encode of the same object without setup_reuse() repeats BeginString/BodyLength/CheckSum: recorded in DESIGN.md as an API-usage finding outside the quantifier)',
                        'only FIX42UTEST is compiled and dumped']
    res.cov['rule'] = ('schema-driven messages as in C01, each encoded from 1..3 different shuffled insertion orders; messages filled by copy_legal from a message of another type; every message type with all optional fields; BodyLength at 99/100/101/999/1000/1001; '
                       'oracle = stand-alone wire-format recogniser (frame, BodyLength, CheckSum, tag=value SOH, section order, position order, group shape) and byte equality with the position-ordered rendering; distinct by line')
    if not replay:
        gen_facts.generate(['schema_fix44'])
        sc44 = cc.schema44()
        rng44 = vlib.rng_for('C02-44', res.seed)
        l44, m44 = gen(rng44, sc44, 60 if res.tier == 'quick' else 4000, capped=True)
        res.cov['fix44'] = cc.run_second_schema(res, l44, make_oracle(sc44, m44))
    vlib.decide_stream(res, module='Fix8Model.Props.C02', theorems=THEOREMS, stream='codec', harness_name='codec', lines=lines,
                       oracle=make_oracle(sc, meta), nontrivial=lambda l: l if l.count('=') >= 7 else None,
                       harness_kw=dict(need_schema=True), extra_obligation_problems=errs)
