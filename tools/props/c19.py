"""C19 inbound messages reach the application only when in sequence: theorems Props.C19 + stream `sess`"""
import vlib
from props import sess_common as sc

THEOREMS = ['C19_delivery', 'C19_accepted_delivered', 'C19_too_high', 'C19_logoff_path', 'C19_undecodable', 'C19_no_seqnum',
            'C19_undecodable_forced', 'C19_history', 'C19_scan_faithful', 'C19_finding_first_substring', 'C19_fixed_scan_witness',
            'C19_finding_data_field', 'C19_finding_no_logout']
APP_ADMIN = {'0', '1', '2', '3', '4', '5', 'A'}


class Oracle:
    """the property, evaluated on the implementation's outputs: the expected number / state / enforcement are read from the
    previous result line and the `new` line; MsgSeqNum, PossDupFlag, OrigSendingTime, SendingTime, CompIDs from the
    harness's independent decode of the inbound frame"""

    def __init__(self):
        self.prev = None
        self.enf = True

    def __call__(self, line, out):
        evs, summ = sc.parse(out)
        w = line.split()
        prev = self.prev
        if summ:
            self.prev = summ
        if w[0] == 'new':
            self.enf = w[2] == '1'
            return (None, None)
        if w[0] != 'in' or out.startswith(('stopped', 'no-session', 'bad-op', 'skipped', 'abort')) or prev is None or summ is None:
            return (None, None)
        raw = bytes.fromhex(w[1])
        klass = 'seqnum-from-data-field' if sc.scan_differs(raw) else None
        a = next((d for k, d in evs if k == 'abs'), {})
        dlv = [d for k, d in evs if k == 'dlv']
        outs = [d for k, d in evs if k == 'out']
        exp, st = prev['nr'], prev['st']
        if a.get('dec') != 'ok':
            if dlv:
                return (False, klass)
            if a.get('dec') == 'throw' and a.get('fl') == '0' and not any(o.get('t') == '3' for o in outs):
                return (False, klass)          # undecodable -> Reject
            if a.get('dec') == 'throw' and a.get('fl') == '1' and summ['sd'] != 1:
                return (False, klass)
            return (True, None)
        seq = int(a['seq'])
        pd = a['pd'] == '1'
        ostbad = a['ost'] not in ('-', '?') and a['st'] not in ('-', '?') and int(a['ost']) > int(a['st'])
        accept = seq == exp or (seq < exp and pd and not ostbad)
        compbad = self.enf and (a['snd'] != 'SRV' or a['tgt'] != 'CLI')
        est = st in sc.ESTABLISHED
        if dlv:
            # ONLY IF: decodable, in sequence or an acceptable duplicate, established, CompIDs fine
            ok = accept and est and not (compbad and st != 'logon_received') and all(d.get('seq') == a['seq'] and d.get('pid') == a['pid'] for d in dlv) and len(dlv) == 1
            return (ok, klass)
        if a['t'] in APP_ADMIN or a['adm'] == '1':
            # administrative traffic is not delivered to handle_application; the session may only be ended for the reasons the
            # property names: an acceptable, in-sequence administrative message (other than Logout / SequenceReset) keeps it alive
            if a['t'] in ('0', '1', '2', '3', 'A') and seq == exp and not compbad and (est or (a['t'] == 'A' and st == 'logon_sent')) and summ['sd'] == 1:
                return (False, klass)
            return (None, None)
        if not est:
            return (True, None)
        if compbad and st != 'logon_received':
            if summ['sd'] != 1:
                return (False, klass)
            return (False, 'logoff-without-logout') if not any(o.get('t') == '5' for o in outs) else (True, None)
        if seq > exp:
            if st == 'continuous':
                ok = any(o.get('t') == '2' and o.get('b') == str(exp) for o in outs)
                return (ok, klass)
            return (summ['sd'] == 1, klass)
        if not accept:
            if summ['sd'] != 1:
                return (False, klass)
            return (False, 'logoff-without-logout') if not any(o.get('t') == '5' for o in outs) else (True, None)
        # acceptable and not delivered
        return (False, klass)


def run(res, replay=None):
    if replay:
        lines = sc.read_replay(replay)
    else:
        n = (40, 45) if res.tier == 'quick' else (400, 60)
        w = sc.weights(in_seq=22, too_high=8, too_low=6, poss_dup=9, poss_dup_in_seq=2, bad_compid=5, corrupt=9, embedded34=10,
                       resend_request=3, app=5, batch=2, adm=1, app_flags=0, adm_flags=0, restart=3, _big=0.08)
        lines, _ = sc.generate('C19', res.seed, n[0], n[1], w)
        lines = vlib.corpus_lines('C19') + lines
    res.assumptions += ['initiator role; the application is the pattern of every sample application: `enforce(seqnum, msg) || deliver`',
                        'expected number / session state are read from the session object after the previous operation (harness/openup.hpp)',
                        'the abstract record of each inbound frame is the output of the real Message::factory (codec not modelled); the scan for the sequence number IS modelled on the raw bytes (Session/Scan.lean)',
                        'inbound frames end with SOH (as delivered by FIXReader); reading past a frame without a terminator is outside this property']
    res.cov['rule'] = ('segments = fresh session + logon handshake (also: traffic before the reply, wrong-number reply, foreign reply), then random mixes of in-sequence / too high / too low '
                       '+- PossDup +- OrigSendingTime / wrong CompIDs (enforcement on and off) / corrupt frames (checksum, length, missing field, unknown type, no 34, unknown tag, duplicate field) / '
                       'header values containing 34= before and after tag 34 and inside SecureData / admin traffic / resend requests / sends / restarts; distinct by (position, line)')
    r = sc.decide(res, pid='C19', theorems=THEOREMS, lines=lines, oracle=Oracle())
    if r:
        res.cov['distribution'] = sc.stats(r['lines'], r['impl'])
