"""C25 concurrent senders: theorems Props.C25 (writer model: spin lock / MPMC queue + writer thread around the session's
send_process) + stream `conc`:
  * deterministic part: a cooperative scheduler drives 2-5 logical sender threads of a REAL Session + connection over loopback TCP
    from yield point to yield point (lock attempt, persister put, unlock); every step is compared with the Lean model;
  * free-running part: 2-8 real threads, all three process models, ASan/UBSan build and TSan build, judged by the property oracle only
    (what the PEER socket received, what the persister returns); TSan reports are classified (FastFlow's volatile queue suppressed)."""
import glob, hashlib, os, re, subprocess, time
import vlib, gen_facts

THEOREMS = ['C25_critical_section', 'C25_numbers', 'C25_wire_numbers', 'C25_unique', 'C25_frames_are_lin', 'C25_thread_order',
            'C25_thread_order_pipelined', 'C25_complete', 'C25_complete_pipelined', 'C25_exactly_once', 'C25_exactly_once_pipelined',
            'C25_writer_alive', 'C25_buffer_empty', 'C25_buffer_empty_pipelined', 'C25_stored',
            'C25_stored_quiescent', 'C25_batch_contiguous', 'C25_batch_contiguous_pipelined', 'C25_mutex', 'C25_lock_discipline',
            'C25_no_access_outside_critical_section', 'C25_batch_push_under_lock', 'C25_finding_single_inside_batch']
HARNESS_KW = dict(need_schema=True, extra_flags=['-ldl'],
                  deps=['runtime/session.cpp', 'runtime/connection.cpp', 'runtime/persist.cpp', 'runtime/filepersist.cpp'])
WITNESS_CLASS = 'single-write-inside-batch'


# ------------------------------------------------------------------------------------------------
# schedule generation.  `Sim` mirrors only WHERE each logical thread stands (to produce valid, interesting schedules and to
# finish every call before `end`); it is not the oracle and not the model.

class Sim:
    def __init__(self, pm):
        self.pl = pm == 'pipe'
        self.at = {}        # thread -> 'acq' | 'put' | 'rel' | 'out'   (absent = idle)
        self.left = {}      # thread -> messages of the call still to go through send_process (thread model)
        self.lock = None

    def idle(self, t):
        return t not in self.at

    def call(self, t, n):
        if n == 0:
            return
        if self.pl:
            if n >= 2:
                self.at[t] = 'acq'
        else:
            self.at[t] = 'acq'
            self.left[t] = n

    def run(self, t):
        a = self.at[t]
        if a == 'acq':
            if self.lock is not None:
                return 'spin'
            self.lock = t
            self.at[t] = 'rel' if self.pl else 'put'
        elif a == 'put':
            self.left[t] -= 1
            if self.left[t] == 0:
                self.at[t] = 'rel'
        elif a == 'rel':
            self.lock = None
            self.at[t] = 'out'
        elif a == 'out':
            del self.at[t]
        return 'ok'


class Script:
    def __init__(self, pm, pk, pid0):
        self.lines = ['det %s %s' % (pm, pk)]
        self.sim = Sim(pm)
        self.pid = pid0

    def npid(self):
        self.pid += 1
        return self.pid

    def call(self, t, kind, n):
        assert self.sim.idle(t)
        pids = [self.npid() for _ in range(n)]
        self.lines.append('call %d %s %s' % (t, kind, ' '.join(map(str, pids))) if pids else 'call %d b' % t)
        self.sim.call(t, n)

    def run(self, t):
        self.lines.append('run %d' % t)
        return self.sim.run(t)

    def settle(self):
        """complete every call in progress (the lock holder first)"""
        for _ in range(10000):
            busy = sorted(self.sim.at)
            if not busy:
                break
            self.run(self.sim.lock if self.sim.lock in busy else busy[0])

    def finish(self):
        self.settle()
        self.lines.append('end')


def gen_directed(pid0):
    out = []
    for pm in ('thread', 'coro', 'pipe'):
        # a batch of three with a second thread trying to enter at every stage, a third thread queueing a batch behind it
        s = Script(pm, 'mem', pid0)
        s.call(1, 'b', 3); s.call(2, 'w', 1); s.call(3, 'b', 2)
        s.run(1)
        for _ in range(4):
            if not s.sim.idle(2): s.run(2)
            if not s.sim.idle(3): s.run(3)
            if not s.sim.idle(1): s.run(1)
        if s.sim.idle(1): s.call(1, 'w', 1)
        s.finish()
        out.append(s); pid0 = s.pid
        # singles only, strictly alternating attempts
        s = Script(pm, 'file', pid0)
        for k in range(3):
            s.call(1, 'w', 1); s.call(2, 'w', 1)
            for _ in range(3):
                for t in (2, 1):
                    if not s.sim.idle(t): s.run(t)
            s.settle()
        s.finish()
        out.append(s); pid0 = s.pid
        # degenerate batches (empty vector, one message) and a long batch
        s = Script(pm, 'mem', pid0)
        s.call(1, 'b', 0); s.call(2, 'b', 6); s.call(3, 'b', 1)
        s.settle()
        s.call(1, 'b', 1); s.call(2, 'b', 0); s.call(3, 'w', 1)
        s.finish()
        out.append(s); pid0 = s.pid
    # pipelined: a single write goes through while another thread sits inside write_batch holding the lock
    s = Script('pipe', 'mem', pid0)
    s.call(1, 'b', 2); s.run(1); s.call(2, 'w', 1); s.call(3, 'b', 2); s.run(3); s.call(2, 'w', 1); s.run(1); s.run(3); s.run(3)
    s.finish()
    out.append(s); pid0 = s.pid
    # malformed / not-a-transition commands
    s = Script('thread', 'mem', pid0)
    s.call(1, 'w', 1)
    s.lines += ['call 1 w 77', 'run 9', 'frobnicate', 'call 0 w 5', 'call 1 x 5', 'run']
    s.finish()
    s.lines += ['run 1', 'end']
    out.append(s); pid0 = s.pid
    return out, pid0


def gen_random(rng, pid0):
    pm = rng.choice(('thread', 'thread', 'coro', 'pipe', 'pipe'))
    s = Script(pm, rng.choice(('mem', 'mem', 'file')), pid0)
    nth = rng.randrange(2, 6)
    style = rng.choice(('uniform', 'greedy', 'starve'))
    budget = {t: rng.randrange(1, 6) for t in range(1, nth + 1)}
    for _ in range(rng.randrange(20, 120)):
        t = rng.randrange(1, nth + 1)
        if s.sim.idle(t):
            if budget[t] > 0 and rng.random() < 0.7:
                budget[t] -= 1
                if rng.random() < 0.45:
                    s.call(t, 'w', 1)
                else:
                    s.call(t, 'b', rng.choice((0, 1, 2, 2, 3, 3, 4, 5, 7)))
            continue
        if style == 'greedy' and s.sim.lock is not None and rng.random() < 0.6:
            t = s.sim.lock
        if style == 'starve' and s.sim.lock == t and rng.random() < 0.7:
            continue
        s.run(t)
    s.finish()
    return s


def gen_free(rng, thorough, hunt=False):
    pm = rng.choice(('thread', 'coro', 'thread', 'pipe', 'pipe')) if not hunt else 'pipe'
    pk = rng.choice(('mem', 'mem', 'file'))
    nth = rng.randrange(2, 9) if not hunt else 2
    progs = []
    for t in range(1, nth + 1):
        ops = []
        k = 0
        nops = rng.randrange(3, 40 if thorough else 16)
        if hunt:
            nops = 6
        for _ in range(nops):
            if hunt:
                n = 48 if t == 1 else 1
            else:
                n = 1 if rng.random() < 0.5 else rng.choice((2, 2, 3, 4, 6, 9))
            pids = []
            for _ in range(n):
                k += 1
                pids.append(t * 1000000 + k)
            ops.append(('w:%d' % pids[0]) if n == 1 and (hunt or rng.random() < 0.85) else 'b:' + '+'.join(map(str, pids)))
        progs.append(' '.join(ops))
    return 'free %s %s %s | %s' % (pm, pk, 'W' if hunt else '-', ' | '.join(progs))


# ------------------------------------------------------------------------------------------------
# the property, stated on the implementation's own answers

DET_RE = re.compile(r'^(ok|spin|bad) at=(\S+) lock=(\S+) ns=(\d+) wire=(\d+) buf=(\d+) st=(\d+) new=(\S+)$')
FIN_RE = re.compile(r'^first=(\d+) ns=(\d+) wire=(\S+)(?: trailing=(\d+))? store=(\S+)(?: ret=(\d+))?$')


def parse_progs(line):
    """free line -> (pm, [ [ ('w'|'b', [pids]) ... ] per thread ])"""
    parts = line.split('|')
    hd = parts[0].split()
    progs = []
    for p in parts[1:]:
        ops = []
        for w in p.split():
            ops.append((w[0], [int(x) for x in w[2:].split('+') if x]))
        progs.append(ops)
    return hd[1], progs


class Oracle:
    """Independent of the Lean model and of Sim.  From the request lines it knows what each thread submitted in which order and
    which messages were submitted as one batch; from the implementation's answers (frames the peer received, persister contents,
    observed lock holder / program points) it checks:
      numbers   the MsgSeqNums on the wire are first, first+1, ... in wire order, no repeats, no holes, and the session's counter ends at first+N;
      once      every submitted payload appears exactly once, nothing else does (besides the Logon);
      order     each thread's payloads appear in its submission order;
      stored    for every application frame n the persister returns exactly the frame's bytes (hash), and nothing else is stored;
      batch     thread / coro model: the frames of one send_batch are adjacent; pipelined: between two frames of one batch there is
                no frame of ANOTHER batch (single writes may fall in between: class single-write-inside-batch, counted);
      mutex     (deterministic part) never two logical threads inside the scope of the lock guard, and the observed holder is that thread."""

    def __init__(self):
        self.why = ''
        self.witness_hits = 0
        self.witness_registered = any(k.get('class') == WITNESS_CLASS for k in vlib.known_findings('C25'))
        self.reset('thread')

    def reset(self, pm):
        self.pm = pm
        self.sub = {}           # thread -> [pid] in submission order
        self.batches = []       # [pid] of every send_batch with >= 2 messages
        self.inside = {}        # thread -> 'put' | 'rel'
        self.wire = []          # (seq, pid) from the step answers
        self.live = False

    def fail(self, why):
        self.why = why
        return (False, None)

    # ---- final check shared by `end` and `free`
    def final(self, out):
        m = FIN_RE.match(out)
        if not m:
            return self.fail('no final report: ' + out[:100])
        first, ns = int(m.group(1)), int(m.group(2))
        if m.group(4):
            return self.fail('%s bytes after the last complete frame on the wire' % m.group(4))
        if m.group(6) and int(m.group(6)):
            return self.fail('%s calls reported failure' % m.group(6))
        frames = []
        for f in m.group(3).split(','):
            p = f.split(':')
            if len(p) != 4:
                return self.fail('unreadable frame on the wire: ' + f)
            frames.append(p)
        if not frames or frames[0][1] != 'A':
            return self.fail('the first frame is not the Logon')
        app = frames[1:]
        exp = sum(len(v) for v in self.sub.values())
        # numbers
        for i, f in enumerate(app):
            if not f[0].isdigit() or int(f[0]) != first + i:
                seen = [g[0] for g in app]
                kind = 'repeated' if seen.count(f[0]) > 1 else 'out of sequence'
                return self.fail('MsgSeqNum %s at wire position %d (%s): expected %d; numbers on the wire: %s' % (f[0], i, kind, first + i, ' '.join(seen[:40])))
        # once
        pos = {}
        for i, f in enumerate(app):
            if f[1] != 'D' or not f[2].isdigit():
                return self.fail('unexpected frame on the wire: ' + ':'.join(f[:3]))
            pid = int(f[2])
            if pid in pos:
                return self.fail('payload %d transmitted twice (numbers %s and %s)' % (pid, app[pos[pid]][0], f[0]))
            pos[pid] = i
        owner = {p: t for t, ps in self.sub.items() for p in ps}
        for pid in pos:
            if pid not in owner:
                return self.fail('payload %d on the wire was never submitted' % pid)
        missing = [p for p in owner if p not in pos]
        if missing:
            return self.fail('%d of %d submitted payloads never reached the wire, e.g. %s' % (len(missing), exp, missing[:5]))
        if ns != first + exp:
            return self.fail('next send number %d after %d messages from %d' % (ns, exp, first))
        # order
        for t, ps in self.sub.items():
            last = -1
            for p in ps:
                if pos[p] < last:
                    return self.fail('thread %d: payload %d overtook an earlier one of the same thread' % (t, p))
                last = pos[p]
        # stored
        st = {}
        if m.group(5) != '-':
            for e in m.group(5).split(','):
                k, h = e.split(':')
                st[int(k)] = h
        for f in app:
            n = int(f[0])
            if st.get(n) != f[3]:
                return self.fail('persister get(%d) %s, transmitted frame %d has hash %s' % (n, 'returns other bytes (hash %s)' % st[n] if n in st and st[n] != '-' else 'returns nothing', n, f[3]))
        extra = [k for k in st if not (first <= k < first + len(app))]
        if extra:
            return self.fail('persister holds records outside the transmitted numbers: %s' % extra[:5])
        # batch
        bid = {}
        for i, b in enumerate(self.batches):
            for p in b:
                bid[p] = i
        klass = None
        for b in self.batches:
            lo, hi = pos[b[0]], pos[b[-1]]
            between = [int(app[j][2]) for j in range(lo, hi + 1) if int(app[j][2]) not in b]
            if not between:
                continue
            if self.pm != 'pipe':
                return self.fail('batch %s is interrupted on the wire by %s (%s model: send_batch holds the lock)' % (b[:4], between[:4], self.pm))
            if any(p in bid for p in between):
                return self.fail('pipelined: batch %s is interleaved with messages of another batch: %s' % (b[:4], [p for p in between if p in bid][:4]))
            self.witness_hits += 1
            klass = WITNESS_CLASS
        if klass and self.witness_registered:
            return (False, klass)
        return (True, None)

    def __call__(self, line, out):
        w = line.split()
        if not w:
            return (None, None)
        if out.startswith(('abort', 'skipped', 'throw', 'start-failed')):
            return self.fail('harness died / refused: ' + out[:120])
        if w[0] == 'free':
            pm, progs = parse_progs(line)
            self.reset(pm)
            for t, ops in enumerate(progs, 1):
                self.sub[t] = [p for _, ps in ops for p in ps]
                self.batches += [ps for k, ps in ops if k == 'b' and len(ps) >= 2]
            return self.final(out)
        if w[0] == 'det':
            self.reset(w[1] if len(w) > 1 else 'thread')
            self.live = out.startswith('ok ')
            return (True if self.live else None, None)
        if not self.live:
            return (None, None)
        if w[0] == 'end':
            if out == 'bad':
                return (None, None)
            self.live = False
            if self.inside:
                return (None, None)
            r = self.final(out)
            if r[0] is not False:
                mm = FIN_RE.match(out)
                peer = [(f.split(':')[0], f.split(':')[2]) for f in mm.group(3).split(',')[1:]]
                if peer != self.wire:
                    return self.fail('the peer received %s but the sends were observed as %s' % (peer[:6], self.wire[:6]))
            return r
        m = DET_RE.match(out)
        if not m:
            return (None, None)
        res, at, lock, new = m.group(1), m.group(2), m.group(3), m.group(8)
        if new != '-':
            for e in new.split(','):
                self.wire.append(tuple(e.split(':')))
        if res == 'bad':
            return (None, None)
        try:
            t = int(w[1])
        except (IndexError, ValueError):
            return (None, None)
        if w[0] == 'call' and len(w) >= 3 and w[2] in 'wb':
            pids = [int(x) for x in w[3:]]
            self.sub.setdefault(t, []).extend(pids)
            if w[2] == 'b' and len(pids) >= 2:
                self.batches.append(pids)
        if at in ('put', 'rel', 'per'):
            self.inside[t] = at
        else:
            self.inside.pop(t, None)
        if len(self.inside) > 1:
            return self.fail('threads %s are inside the scope of the lock guard at the same time (%s)' % (sorted(self.inside), self.inside))
        if self.inside and lock != str(list(self.inside)[0]):
            return self.fail('thread %s is inside the lock scope but the lock is held by %s' % (list(self.inside)[0], lock))
        # numbers so far
        first = 2
        for i, (sq, _) in enumerate(self.wire):
            if not sq.isdigit() or int(sq) != first + i:
                return self.fail('MsgSeqNum %s at wire position %d, expected %d (numbers so far: %s)' % (sq, i, first + i, ' '.join(x for x, _ in self.wire)))
        return (True, None)


# ------------------------------------------------------------------------------------------------

def canon(line, out):
    """what is compared with the model: the final report without byte hashes"""
    m = FIN_RE.match(out)
    if line.strip() == 'end' and m:
        wire = ','.join(':'.join(f.split(':')[:3]) for f in m.group(3).split(','))
        st = '-' if m.group(5) == '-' else ','.join(e.split(':')[0] for e in m.group(5).split(',') if not e.endswith(':-'))
        return 'first=%s ns=%s wire=%s store=%s' % (m.group(1), m.group(2), wire, st or '-')
    return out


def compare(line, impl, model):
    if line.startswith('free'):
        return True
    if impl.startswith('bad') and model.startswith('bad'):
        return True
    return canon(line, impl) == model


def chunked(real, max_segments=12):
    """vlib.run_harness allows about a minute per harness process: feed the script in chunks of whole segments"""
    def run_harness(exe, lines, **kw):
        outs, aborts, chunk, nseg, base = [], [], [], 0, 0
        def flush():
            nonlocal chunk, base
            if chunk:
                o, a = real(exe, chunk, **kw)
                outs.extend(o)
                aborts.extend((base + i, e) for i, e in a)
                base += len(chunk)
                chunk = []
        for l in lines:
            if l.startswith(('det', 'free')):
                nseg += 1
                if nseg > max_segments or l.startswith('free') and nseg > 4:
                    flush()
                    nseg = 1
            chunk.append(l)
        flush()
        return outs, aborts
    return run_harness


def build_lines(res):
    rng = vlib.rng_for('C25', res.seed)
    thorough = res.tier == 'thorough'
    scripts, pid = gen_directed(1000)
    for _ in range(500 if thorough else 32):
        s = gen_random(rng, pid)
        scripts.append(s)
        pid = s.pid
    lines = [l for s in scripts for l in s.lines]
    free = [gen_free(rng, thorough) for _ in range(150 if thorough else 14)]
    free += [gen_free(rng, thorough, hunt=True) for _ in range(12 if thorough else 3)]
    return lines, free, len(scripts)


TSAN_SUPP = """# FastFlow's queues synchronise through volatile accesses and explicit fences, which TSan cannot see: not the subject of C25 (C30)
race:ff::
race:FIX8::ff_unbounded_queue
race:uSWSR_Ptr_Buffer
race:uMPMC_Ptr_Queue
"""
SUBJECT = re.compile(r'send_process|MemoryPersister|FilePersister|YPersister|Persister::|_batchmsgs_buffer')


def tsan_reports(txt):
    """-> [(kind, first stack, second stack, whole text)] of one TSan log"""
    out = []
    for r in txt.split('=================='):
        m = re.search(r'WARNING: ThreadSanitizer: ([^\n(]+)', r)
        if not m:
            continue
        parts = re.split(r'\n  Previous ', r, maxsplit=1)
        a = parts[0]
        b = re.split(r'\n  (?:Location|Mutex|Thread T\d+ |As if)', parts[1], maxsplit=1)[0] if len(parts) > 1 else ''
        out.append((m.group(1).strip(), a, b, r))
    return out


def run_tsan(res, free_lines):
    """free-running lines on the TSan build: oracle + classification of the race reports.
    thread / coro model: a data race report with the send path (send_process, the persister) in EITHER stack is a violation.
    pipelined model: the Message objects travel from the senders to the writer thread through FastFlow's queue, whose
    synchronisation (volatile accesses + fences) TSan cannot see, so every access of the writer thread to a message is reported
    against its construction in the sender; only reports with the send path in BOTH stacks are judged there."""
    t0 = time.time()
    info = dict(build='tsan', runs=0, runs_by_model={}, oracle_failures=0, reports=0, subject_reports=0, other_reports=0,
                queue_handoff_reports_not_judged=0, suppressed='ff::* (FastFlow queue internals)')
    try:
        exe = vlib.build_harness('conc', san='tsan', **HARNESS_KW)
    except vlib.BuildError as e:
        res.violation(str(e)[-1500:], 'TSan build of harness conc failed: the race clause has no evidence', no_input=True)
        res.cov['tsan'] = info
        return
    supp = os.path.join(vlib.CACHE, 'tsan_c25.supp')
    vlib.write_if_changed(supp, TSAN_SUPP)
    logp = os.path.join(vlib.CACHE, 'tsan_c25_%d' % os.getpid())
    for f in glob.glob(logp + '*'):
        os.unlink(f)
    env = dict(vlib.ENV_RUN, TSAN_OPTIONS='halt_on_error=0:report_signal_unsafe=0:exitcode=0:history_size=4:suppressions=%s:log_path=%s:second_deadlock_stack=0' % (supp, logp))
    oracle = Oracle()
    for l in free_lines:
        pm = l.split()[1]
        outs, aborts = vlib.run_harness(exe, [l], env=env, per_line_timeout=120.0)
        info['runs'] += 1
        info['runs_by_model'][pm] = info['runs_by_model'].get(pm, 0) + 1
        ok, klass = oracle(l, outs[0])
        if ok is False and klass is None:
            info['oracle_failures'] += 1
            if info['oracle_failures'] <= 3:
                res.violation(l, 'property oracle fails on the free-running implementation (TSan build): %s' % oracle.why)
        reports = []
        for f in sorted(glob.glob(logp + '*')):
            reports += tsan_reports(open(f, errors='replace').read())
            os.unlink(f)
        for kind, a, b, r in reports:
            info['reports'] += 1
            sa, sb = bool(SUBJECT.search(a)), bool(SUBJECT.search(b))
            subject = 'data race' in kind and ((sa and sb) if pm == 'pipe' else (sa or sb))
            if subject:
                info['subject_reports'] += 1
                if info['subject_reports'] <= 3:
                    head = ' / '.join(x.strip() for x in re.findall(r'#0 [^\n]*', r)[:2])
                    res.violation(l, 'ThreadSanitizer reports a data race on the send path (sequence counter / batch buffer / persister) in the %s model: %s\n%s' % (pm, head, r[:1800]))
            elif pm == 'pipe' and 'data race' in kind and (sa or sb):
                info['queue_handoff_reports_not_judged'] += 1
            else:
                info['other_reports'] += 1
                info.setdefault('other_samples', [])
                smp = re.sub(r'0x[0-9a-f]+', 'ADDR', ' / '.join(x.strip() for x in re.findall(r'(?:WARNING[^\n]*|#0 [^\n]*)', r)[:3]))[:260]
                if len(info['other_samples']) < 4 and smp not in info['other_samples']:
                    info['other_samples'].append(smp)
    info['wall_s'] = round(time.time() - t0, 1)
    info['single_inside_batch_observed'] = oracle.witness_hits
    res.cov['tsan'] = info


def tsan_selection(free, thorough):
    """thread / coro lines are cheap under TSan (seconds); a pipelined line costs ~40 s of report symbolisation for
    reports that cannot be judged (see run_tsan): thorough tier only, three of them"""
    lock = [l for l in free if l.split()[1] != 'pipe']
    pipe = [l for l in free if l.split()[1] == 'pipe' and l.split()[3] == '-']
    return (lock[:40] + pipe[:3]) if thorough else lock[:5]


def run(res, replay=None):
    errs = gen_facts.generate(['mpmc'])
    nscripts = 0
    free = []
    if replay:
        lines = [l.strip() for l in open(replay) if l.strip() and not l.startswith('#')]
    else:
        det, free, nscripts = build_lines(res)
        lines = vlib.corpus_lines('C25') + det + free
    res.assumptions += [
        'the spin lock is an atomic test-and-set, every shared access one indivisible sequentially consistent step; send() of a buffer is atomic with the step that issues it',
        'all messages are new application messages (NewOrderSingle) sent without custom_seqnum / no_increment; socket writes succeed; no inbound traffic, timer, resend handling or restart runs concurrently (C16-C19 cover those sequentially); _per_spl (persister lock against the inbound path) is not modelled',
        'the queue of the pipelined model is the C30 model (its trusted base applies); pointer = 2*payload id + end_of_batch',
        'RACE CLAUSE IS PARTIAL: the theorems prove lock discipline for the shared variables of the model (_next_send_seq, _batchmsgs_buffer, persister: every access by the lock holder / the single writer thread); data-race freedom in the sense of the C++ memory model is only OBSERVED by the TSan build of the free-running runs (FastFlow queue internals suppressed)',
        'yield points of the cooperative scheduler are obtained by interposing pthread_spin_lock / pthread_spin_unlock / send in the harness executable and wrapping the persister; /repo is not modified; the pipelined writer thread of the harness is ended by a throwing modify_outbound (FIXWriter::stop pushes a null pointer, which FastFlow asserts against)']
    res.cov['rule'] = ('deterministic schedules = sequences of (logical thread t calls send / send_batch | thread t continues to its next yield point: lock attempt, persister put, unlock) for 2-5 logical threads on pm_thread, pm_coro and pm_pipeline over Memory/FilePersister: '
                       'directed (second and third thread trying to enter at every stage of a batch, alternating singles, empty / one-message / long batches, single write while another thread holds the lock inside a pipelined write_batch, not-a-transition and malformed commands) and random (uniform, lock-holder-greedy, holder-starving) schedules; '
                       'after EVERY step program point, lock holder, _next_send_seq, frames written, frames in the batch buffer, records stored and the new frames are compared with the model, at the end what the peer socket received and the persister contents. '
                       'free-running lines = 2-8 real threads x 3-40 calls (singles and batches of 2-9) per process model, plus witness hunts (48-message batches against singles released when the lock is taken); judged by the oracle only. distinct non-trivial = distinct schedule prefixes ending in a step / distinct free programs')
    res.cov['schedules'] = nscripts
    h = [hashlib.sha256()]

    def nontrivial(l):
        if l.startswith(('det', 'free')):
            h[0] = hashlib.sha256()
        h[0].update(l.encode() + b'\n')
        return h[0].hexdigest()[:16] if l.startswith(('run', 'free', 'call')) else None

    oracle = Oracle()
    real = vlib.run_harness
    vlib.run_harness = chunked(real)
    try:
        r = _decide(res, lines, oracle, nontrivial, errs)
    finally:
        vlib.run_harness = real
    return _after(res, r, oracle, free, lines, replay)


def _decide(res, lines, oracle, nontrivial, errs):
    return vlib.decide_stream(res, module='Fix8Model.Props.C25', theorems=THEOREMS, stream='conc', harness_name='conc', lines=lines,
                           oracle=oracle, nontrivial=nontrivial, harness_kw=dict(san='asan', **HARNESS_KW), stateful=True, compare=compare,
                           extra_obligation_problems=errs, segment_start=lambda x: x.startswith(('det', 'free')))


def _after(res, r, oracle, free, lines, replay):
    res.cov['single_inside_batch_observed'] = oracle.witness_hits
    if oracle.why and res.violations:
        res.notes.append('last oracle message: ' + oracle.why)
        print('# oracle: ' + oracle.why[:400])
    if r and not replay:
        outs = r['impl']
        res.cov['results'] = dict(steps=sum(o.startswith('ok ') for o in outs), spins=sum(o.startswith('spin') for o in outs),
                                  refused=sum(o.startswith('bad') for o in outs), finals=sum(o.startswith('first=') for o in outs),
                                  free_runs=len(free), frames=sum(o.count(':D:') for o in outs if o.startswith('first=')))
        if not res.violations:
            run_tsan(res, tsan_selection(free, res.tier == 'thorough'))
    if replay and r:
        for l, a, b in zip(r['lines'], r['impl'], r['model'] or [''] * len(lines)):
            print('%-22s impl: %-90s%s' % (l[:22], a[:160], '' if compare(l, a, b) else '   MODEL: ' + b[:160]))
        if any(l.startswith('free') for l in lines) and not res.violations:
            run_tsan(res, [l for l in lines if l.startswith('free')])
