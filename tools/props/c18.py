"""C18 resend requests are answered with a complete, faithful replay: theorems Props.C18 + stream `sess`"""
import vlib
from props import sess_common as sc

THEOREMS = ['retransmit_answer', 'C18_chain', 'C18_replays_faithful', 'C18_replays_complete', 'C18_gapfills', 'C18_answer',
            'C18_history', 'C18_no_persister', 'C18_finding_gapfill_seqnum']
KLASS = 'custom-or-no-increment-send'


class Oracle:
    """the new application frames seen on the wire (number -> SendingTime, ClOrdID, type) are what must be in the store (C17).
    For an in-sequence ResendRequest [B,E] in the continuous state the frames written in answer must
      - tile the numbers from B to the new next-send number: each frame starts where the previous one ended
        (a replay ends at its number + 1, a gap fill at its NewSeqNo), the last one ends at next-send;
      - replay exactly the stored numbers of [B, finish] (finish = E, or the newest stored number for E = 0), each with
        PossDupFlag=Y, OrigSendingTime = original SendingTime, same type and ClOrdID;
      - use gap fills (SequenceReset, GapFillFlag=Y, no PossDupFlag) that cover no stored number of [B, finish]."""

    def __init__(self):
        self.prev = None
        self.reset('mem', True)

    def reset(self, pk, enf):
        self.pk, self.enf = pk, enf
        self.sent = {}
        self.tainted = False

    def __call__(self, line, out):
        evs, summ = sc.parse(out)
        w = line.split()
        prev = self.prev
        if summ:
            self.prev = summ
        if w[0] == 'new':
            self.reset(w[1], w[2] == '1')
        if out.startswith(('stopped', 'no-session', 'bad-op', 'skipped', 'abort')):
            return (None, None)
        if w[0] == 'app' and (w[2] != '0' or w[3] == '1'):
            self.tainted = True
        outs = [d for k, d in evs if k == 'out']
        a = next((d for k, d in evs if k == 'abs'), {})
        is_req = w[0] == 'in' and a.get('dec') == 'ok' and a.get('t') == '2'
        if not is_req:
            for f in outs:
                if sc.is_new(f) and f.get('adm') == '0' and f['seq'].isdigit():
                    self.sent.setdefault(int(f['seq']), f)
            return (None, None)
        if prev is None or summ is None or prev['st'] != 'continuous' or int(a['seq']) != prev['nr']:
            return (None, None)
        if self.enf and (a['snd'] != 'SRV' or a['tgt'] != 'CLI'):
            return (None, None)
        b, e = int(a['b']), int(a['e'])
        if b == 0 or (b > e and e != 0):
            ok = len(outs) == 1 and outs[0].get('t') == '3'         # invalid range: Reject
            return (ok, None)
        klass = KLASS if self.tainted else None
        stored = self.sent if self.pk != 'none' else {}
        finish = e if e else (max(stored) if stored else 0)
        cur = b
        replayed = []
        for f in outs:
            if f.get('dec') != 'ok' or not f['seq'].isdigit() or int(f['seq']) != cur:
                return (False, klass)
            if f['t'] == '4':
                if f.get('gf') != '1' or f.get('pd') != '-' or not f.get('new', '-').isdigit() or int(f['new']) <= cur:
                    return (False, klass)
                hi = int(f['new'])
                if any(cur <= n < hi and n <= finish for n in stored):
                    return (False, klass)
                cur = hi
            else:
                n = int(f['seq'])
                o = stored.get(n)
                if o is None or not (b <= n <= finish) or f.get('pd') != '1' or f.get('ost') != o.get('st') or f.get('pid') != o.get('pid') or f.get('t') != o.get('t'):
                    return (False, klass)
                replayed.append(n)
                cur = n + 1
        if not outs or cur != summ['ns']:
            return (False, klass)
        if sorted(replayed) != sorted(n for n in stored if b <= n <= finish):
            return (False, klass)
        return (True, None)


def run(res, replay=None):
    if replay:
        lines = sc.read_replay(replay)
    else:
        n = (40, 45) if res.tier == 'quick' else (400, 60)
        w = sc.weights(resend_request=30, app=20, batch=8, adm=10, test_request=5, in_seq=8, app_flags=1, adm_flags=0, restart=4,
                       too_high=2, too_low=1, corrupt=3, embedded34=1, poss_dup=2, bad_compid=1, logout_in=0, seq_reset=1)
        lines, _ = sc.generate('C18', res.seed, n[0], n[1], w, persist=('mem', 'file', 'file', 'none'))
        lines = vlib.corpus_lines('C18') + lines
    res.assumptions += ['initiator role, _always_seqnum_assign = false; the request arrives in sequence in the continuous state (other states are modelled and compared with the code, but the property is judged there only through the model)',
                        'the store contents are what C17 establishes: the new application frames written so far (the oracle rebuilds them from the wire)',
                        'recorded deviation (not counted): for EndSeqNo below the newest stored number the closing gap fill announces the next-send number and thereby skips stored numbers above EndSeqNo that were not requested']
    res.cov['rule'] = ('stores with gaps arise from interleaving application sends / batches with administrative sends and replies (Heartbeat, Reject, ResendRequest are not stored); request ranges: inside, E = 0, E = B, E beyond the '
                       'newest, B at the newest stored message, B beyond everything sent, B > E, B = 0; MemoryPersister / FilePersister / no persister; also after restarts')
    r = sc.decide(res, pid='C18', theorems=THEOREMS, lines=lines, oracle=Oracle())
    if r:
        res.cov['distribution'] = sc.stats(r['lines'], r['impl'])
        res.cov['resend_answers_judged'] = sum(1 for l, o in zip(r['lines'], r['impl']) if l.startswith('in ') and 'abs{dec=ok,t=2' in o and 'out{' in o)
