"""C26 persister store contract: theorems Props.C26 + stream `store` (MemoryPersister and FilePersister)"""
import vlib

THEOREMS = ['C26_mem', 'C26_file', 'C26_nearest', 'C26_nearest_zero']


def boundary(rng):
    """records at the size limit of the store (FIX8_MAX_MSG_LENGTH - 1 and exactly FIX8_MAX_MSG_LENGTH bytes: the read buffer of
    FilePersister::get holds exactly that many) among small ones, read back singly and by ranges, before and after a reopen"""
    import gen_facts  # noqa  (the limit is taken from the generated constants when available)
    lim = 8192
    try:
        import re as _re
        lim = int(_re.search(r'#define\s+FIX8_MAX_MSG_LENGTH\s+(\d+)', open(vlib.REPO + '/include/fix8/f8config.h').read()).group(1))
    except Exception:
        pass
    lines = []
    for kind in ('file', 'mem'):
        lines += ['open ' + kind, 'cput 1 1']
        sizes = [5, lim - 1, 7, lim, 3, lim, 9]
        for i, ln in enumerate(sizes):
            lines.append('put %d %s' % (i + 1, bytes(rng.randrange(256) for _ in range(ln)).hex()))
        probe = ['get %d' % k for k in range(1, len(sizes) + 2)] + ['last', 'near 2', 'near 4', 'range 1 0', 'range 1 %d' % len(sizes), 'range 2 4', 'range 4 4', 'range 3 6']
        lines += probe
        if kind == 'file':
            lines += ['reopen'] + probe
    return lines


def gen(rng, n):
    lines = boundary(rng)
    for h in range(n):
        kind = rng.choice(('mem', 'file'))
        lines.append('open ' + kind)
        pool = [rng.randrange(1, 40) for _ in range(rng.randrange(1, 12))]
        first_is_ctrl = rng.random() < 0.6
        if first_is_ctrl:
            lines.append('cput %d %d' % (rng.randrange(1, 100), rng.randrange(1, 100)))
        for _ in range(rng.randrange(1, 200 if rng.random() < 0.2 else 40)):
            r = rng.random()
            k = rng.choice(pool) if rng.random() < 0.8 else rng.randrange(0, 60)
            if r < 0.3:
                ln = rng.choice((0, 1, 2, 10, 100, rng.randrange(0, 300), rng.choice((2047, 4096, 8192)) if rng.random() < 0.05 else 5))
                lines.append('put %d %s' % (k, bytes(rng.randrange(256) for _ in range(ln)).hex() or '-'))
            elif r < 0.42:
                lines.append('cput %d %d' % (rng.randrange(0, 1000), rng.randrange(0, 1000)))
            elif r < 0.6:
                lines.append('get %d' % k)
            elif r < 0.68:
                lines.append('cget')
            elif r < 0.76:
                lines.append('last')
            elif r < 0.86:
                lines.append('near %d' % max(1, k))
            elif r < 0.96:
                f = max(1, k); t = rng.choice((0, 0, f, f + rng.randrange(0, 20), rng.randrange(1, 60)))
                lines.append('range %d %d' % (f, t))
            elif kind == 'file' and first_is_ctrl:
                lines.append('reopen')   # a message stored before any control record loses its index slot on reopen: C27's finding
    return lines


class Oracle:
    """independent oracle: a dict plus a control record"""
    def __init__(self):
        self.m, self.c = {}, None
    def __call__(self, line, out):
        w = line.split()
        if w[0] == 'open':
            self.m, self.c = {}, None
            return (out == 'ok', None)
        if w[0] == 'reopen':
            return (out == 'ok', None)
        if w[0] == 'put':
            k = int(w[1]); b = bytes.fromhex(w[2]) if w[2] != '-' else b''
            if k == 0 or k in self.m:
                return (out == 'false', None)
            self.m[k] = b
            return (out == 'true', None)
        if w[0] == 'cput':
            self.c = (int(w[1]), int(w[2])); return (out == 'true', None)
        if w[0] == 'get':
            k = int(w[1])
            return (out == ('msg ' + (self.m[k].hex() or '-') if k in self.m else 'msg none'), None)
        if w[0] == 'cget':
            return (out == ('ctrl %d,%d' % self.c if self.c else 'ctrl none'), None)
        last = max(self.m) if self.m else 0
        if w[0] == 'last':
            return (out == 'num %d' % last, None)
        if w[0] == 'near':
            req = int(w[1]); c = [k for k in self.m if req <= k <= last]
            return (out == 'num %d' % (min(c) if c else 0), None)
        if w[0] == 'range':
            f, t = int(w[1]), int(w[2]); fin = last if t == 0 else t
            keys = sorted(k for k in self.m if f <= k <= fin)
            return (out == 'visit' + ''.join(' %d' % k for k in keys) + ' done', None)
        return (None, None)


def run(res, replay=None):
    rng = vlib.rng_for('C26', res.seed)
    if replay:
        lines = [l.strip() for l in open(replay) if l.strip() and not l.startswith('#')]
    else:
        lines = vlib.corpus_lines('C26') + gen(rng, 60 if res.tier == 'quick' else 3000)
    res.assumptions += ['std::map modelled as an association list with unique keys, ascending iteration as a filtered ascending key range',
                        'nearest-highest search and range retrieval are exercised with requested >= 1 (what handle_resend_request guarantees); 0 hits the control key',
                        'messages are at most FIX8_MAX_MSG_LENGTH bytes (FilePersister::get reads into a stack buffer of that size)',
                        'POSIX lseek/read/write as atomic steps; a clean close/reopen keeps the files']
    res.cov['rule'] = ('operation histories on MemoryPersister and FilePersister (1..200 ops over a small key pool so that duplicates, gaps and out-of-order stores occur; '
                       'message sizes 0..300 plus occasional 2047/4096/8192, and in every run a directed history with records of FIX8_MAX_MSG_LENGTH - 1 and exactly FIX8_MAX_MSG_LENGTH bytes read back singly and by ranges; reopen for the file store); distinct by (history, position); non-trivial = every op except open/reopen')
    vlib.decide_stream(res, module='Fix8Model.Props.C26', theorems=THEOREMS, stream='store', harness_name='store',
                       lines=lines, oracle=Oracle(), nontrivial=(lambda c=[0]: (lambda l: (c.__setitem__(0, c[0] + 1) or (c[0], l)) if not l.startswith(('open', 'reopen')) else None))(),
                       harness_kw=dict(need_schema=True, extra_flags=['-ldl']), stateful=True)
