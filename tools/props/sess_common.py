"""Shared machinery of the session-layer checks C16-C19: FIX frame builder, history generator (logon handshake, then
random mixes of inbound traffic / sends / batches / resend requests / restarts), parsing of the harness result lines,
and the two-phase run (harness first; the abstract record of every inbound frame, as decoded by the REAL Message::factory
inside the harness, is appended to the line the Lean driver gets - the codec is not part of the session model)."""
import datetime, re
import vlib

SOH = '\x01'
T0 = 1600000000000
HARNESS_KW = dict(need_schema=True, extra_flags=['-ldl'], deps=['runtime/session.cpp', 'runtime/persist.cpp', 'runtime/filepersist.cpp'])


# ------------------------------------------------------------------------------------------------ frames
def ts(ms):
    d = datetime.datetime.utcfromtimestamp((T0 + ms) // 1000)
    return d.strftime('%Y%m%d-%H:%M:%S') + '.%03d' % ((T0 + ms) % 1000)


def frame(fields, begin='FIX.4.2', badsum=False, lenoff=0):
    """fields: list of (tag, value) strings -> (bytes, offset of the SOH before the first real 34 field or None)"""
    body = ''
    pos34 = None
    head_len_placeholder = None
    parts = []
    for t, v in fields:
        parts.append((t, '%s=%s\x01' % (t, v)))
    body = ''.join(p for _, p in parts)
    head = '8=%s\x019=%d\x01' % (begin, len(body) + lenoff)
    off = len(head)
    for t, p in parts:
        if t == '34' and pos34 is None:
            pos34 = off - 1
        off += len(p)
    s = head + body
    cs = sum(s.encode('latin1')) % 256
    if badsum:
        cs = (cs + 7) % 256
    return (s + '10=%03d\x01' % cs).encode('latin1'), pos34


def hdr(t, seq, st=0, snd='SRV', tgt='CLI', pd=None, ost=None, pre=(), post=()):
    f = [('35', t), ('49', snd), ('56', tgt)] + list(pre) + [('34', str(seq))] + list(post)
    if pd is not None:
        f.append(('43', 'Y' if pd else 'N'))
    f.append(('52', ts(st)))
    if ost is not None:
        f.append(('122', ts(ost)))
    return f


def order_body(pid, drop=None):
    b = [('11', str(pid)), ('21', '1'), ('55', 'OC'), ('54', '1'), ('60', ts(0)), ('38', '50'), ('40', '1')]
    return [x for x in b if x[0] != drop]


# ------------------------------------------------------------------------------------------------ result lines
_EV = re.compile(r'(abs|out|dlv|adm|stored)\{([^}]*)\}')
_SUM = re.compile(r'\| st=(\S+) ns=(\d+) nr=(\d+) ctrl=(\S+) sd=(\d)')


def kv(s):
    d = {}
    for p in s.split(','):
        if '=' in p:
            k, v = p.split('=', 1)
            d[k] = v
    return d


def parse(out):
    """-> (events [(kind, dict)], summary dict or None)"""
    evs = [(m.group(1), kv(m.group(2))) for m in _EV.finditer(out)]
    m = _SUM.search(out)
    summ = None
    if m:
        c = m.group(4)
        summ = dict(st=m.group(1), ns=int(m.group(2)), nr=int(m.group(3)), ctrl=None if c == 'none' else tuple(int(x) for x in c.split(',')),
                    sd=int(m.group(5)))
    return evs, summ


def canon(o):
    o = re.sub(r',hex=[0-9a-f-]*', '', o)
    o = re.sub(r'(?<=\{)w=\d+,', '', o)
    o = re.sub(r'ret=\d+ ', '', o)
    # RefSeqNum is an int field: a scanned number >= 2^31 prints negative; the model keeps the unsigned value
    o = re.sub(r'ref=-(\d+)', lambda m: 'ref=%d' % (4294967296 - int(m.group(1))), o)
    return o


def compare(line, impl, model):
    return model == 'unmodelled' or canon(impl) == model


def is_new(f):
    """a new message: neither a retransmission nor a sequence reset / gap fill"""
    return f.get('dec') == 'ok' and f.get('pd') == '-' and f.get('t') != '4'


ESTABLISHED = {'continuous', 'logon_received', 'logoff_sent', 'logoff_received', 'test_request_sent', 'sequence_reset_sent',
               'sequence_reset_received', 'resend_request_sent', 'resend_request_received'}


# ------------------------------------------------------------------------------------------------ generator
class Gen:
    """histories as segments `new ...`; the generator keeps a rough estimate of the session's numbers so that most
    traffic is in sequence; the estimate does not need to be exact (every class is also produced at random offsets)"""

    def __init__(self, rng, w, persist=('mem', 'file', 'none'), meta=None):
        self.r = rng
        self.w = w
        self.persist = persist
        self.lines = []
        self.meta = meta if meta is not None else {}     # line index -> dict(scan_differs=bool, kind=...)
        self.pid = 1000
        self.clock = 0

    def emit(self, l, **m):
        self.meta[len(self.lines)] = m
        self.lines.append(l)

    def npid(self):
        self.pid += 1
        return self.pid

    def tick(self):
        self.clock += self.r.choice((0, 1, 7, 250, 1000, 61000))
        self.emit('clock %d' % self.clock, kind='clock')

    def inbound(self, fields, kind, **kw):
        raw, p34 = frame(fields, **kw)
        first = raw.find(b'\x0134=')
        self.emit('in ' + raw.hex(), kind=kind, scan_differs=(p34 is not None and first != p34), raw=raw)

    def logon_reply(self, seq, **kw):
        self.inbound(hdr('A', seq, st=self.clock, **kw) + [('98', '0'), ('108', '30')], 'logon')

    def gets(self, lo, hi):
        for n in range(max(1, lo), hi + 1):
            self.emit('get %d' % n, kind='get')

    def segment(self, nops):
        r = self.r
        pk = r.choice(self.persist)
        enf = 1 if r.random() < 0.8 else 0
        ss = rs = 0
        if r.random() < 0.1:
            ss, rs = r.randrange(1, 40), r.randrange(1, 40)
        elif r.random() < self.w.get('_big', 0.0):
            # ten-digit sequence numbers (the MsgSeqNum FIELD is an int: numbers above 2147483647 cannot be represented and are left out)
            ss, rs = r.randrange(10 ** 9, 2 * 10 ** 9), r.randrange(10 ** 9, 2 * 10 ** 9)
        self.clock = 0
        self.always = r.random() < self.w.get('_always', 0.0) or getattr(self, 'force', None) == 'A'
        # X: segment with the extended operations (application retransmissions alone and at the tail of a batch, failing socket writes);
        # like A it is outside the Lean model and judged by the property oracle only
        self.ext = (not self.always) and (r.random() < self.w.get('_ext', 0.0) or getattr(self, 'force', None) == 'X')
        self.emit('new %s %d %d %d%s' % (pk, enf, ss, rs, ' A' if self.always else ' X' if self.ext else ''), kind='new')
        self.ns = (ss or 1) + 1
        self.nr = rs or 1
        self.sent = set()
        self.alive = True
        self.pk = pk
        self.enf = enf
        pre = r.random()
        if pre < 0.08:       # traffic before the logon reply (state logon_sent)
            self.op_inbound_app(self.nr)
        elif pre < 0.14:     # logon reply with a wrong number: the Logout path of process()
            self.logon_reply(self.nr + r.choice((-1, 3)) if self.nr > 1 else self.nr + 2)
            self.alive = False
        elif pre < 0.17:     # logon reply from somebody else
            snd_, tgt_ = r.choice((('BAD', 'BAD'), ('BAD', 'CLI'), ('SRV', 'BAD')))
            self.logon_reply(self.nr, snd=snd_, tgt=tgt_)
            self.alive = False if enf else True
            self.nr += 1
        if self.alive and pre >= 0.14 or pre < 0.08:
            self.logon_reply(self.nr)
            self.nr += 1
        ops = [(k_, v_) for k_, v_ in self.w.items() if not k_.startswith('_')]
        if self.always:
            ops = [(k_, v_) for k_, v_ in ops if k_ in ('app', 'batch', 'adm', 'in_seq', 'heartbeat', 'test_request')] + [('fwd', 30)]
        if self.ext:
            ops = [(k_, v_) for k_, v_ in ops if k_ in ('app', 'batch', 'adm', 'in_seq', 'heartbeat', 'test_request', 'restart')] + [('fwd_dup', 10), ('dbatch', 25), ('wfail', 20)]
        names = [k for k, _ in ops]
        weights = [v for _, v in ops]
        for _ in range(nops):
            if r.random() < 0.5:
                self.tick()
            if not self.alive:
                # a few operations on the dead session, then maybe a restart over the same store
                if r.random() < 0.5:
                    self.op_inbound_app(self.nr)
                if r.random() < 0.6 and pk != 'none':
                    self.op_restart()
                else:
                    break
                continue
            getattr(self, 'op_' + r.choices(names, weights)[0])()
        self.gets(1, min(self.ns + 2, 60))

    # --- inbound
    def op_inbound_app(self, seq=None, **kw):
        seq = self.nr if seq is None else seq
        self.inbound(hdr('D', seq, st=self.clock, **kw) + order_body(self.npid()), 'app')
        self.nr += 1

    def op_in_seq(self):
        self.op_inbound_app()

    def op_in_other_type(self):
        # another application type (OrderCancelRequest 'F')
        self.inbound(hdr('F', self.nr, st=self.clock) + [('41', '7'), ('11', str(self.npid())), ('55', 'OC'), ('54', '1'), ('60', ts(0))], 'app')
        self.nr += 1

    def op_too_high(self):
        k = self.r.choice((1, 1, 2, 5, 40))
        self.inbound(hdr('D', self.nr + k, st=self.clock) + order_body(self.npid()), 'high')
        self.nr += 1
        self.ns += 1
        # usually the peer then fills the gap
        x = self.r.random()
        if x < 0.45:
            self.op_seq_reset(self.nr + k)
        elif x < 0.6:
            self.op_too_high_again()

    def op_too_high_again(self):
        self.inbound(hdr('D', self.nr + 3, st=self.clock) + order_body(self.npid()), 'high2')
        self.alive = False

    def op_too_low(self):
        if self.nr <= 1:
            return self.op_in_seq()
        seq = self.r.randrange(1, self.nr)
        self.inbound(hdr('D', seq, st=self.clock, pd=self.r.choice((None, None, False))) + order_body(self.npid()), 'low')
        self.alive = False

    def op_poss_dup(self):
        if self.nr <= 1:
            return self.op_in_seq()
        seq = self.r.randrange(1, self.nr)
        x = self.r.random()
        if x < 0.6:
            ost = self.clock - self.r.choice((0, 5, 1000)) if self.clock >= 1000 else self.clock
            self.inbound(hdr('D', seq, st=self.clock, pd=True, ost=ost) + order_body(self.npid()), 'dup')
            self.nr += 1
        elif x < 0.8:
            self.inbound(hdr('D', seq, st=self.clock, pd=True) + order_body(self.npid()), 'dup-noorig')
            self.nr += 1
        else:
            self.inbound(hdr('D', seq, st=self.clock, pd=True, ost=self.clock + 1000) + order_body(self.npid()), 'dup-badorig')
            self.alive = False

    def op_poss_dup_in_seq(self):
        self.inbound(hdr('D', self.nr, st=self.clock, pd=True, ost=self.clock) + order_body(self.npid()), 'dup-inseq')
        self.nr += 1

    def op_bad_compid(self):
        snd, tgt = self.r.choice((('BAD', 'CLI'), ('SRV', 'BAD'), ('BAD', 'BAD')))
        self.inbound(hdr('D', self.nr, st=self.clock, snd=snd, tgt=tgt) + order_body(self.npid()), 'compid')
        if self.enf:
            self.alive = False
        else:
            self.nr += 1

    def op_corrupt(self):
        x = self.r.random()
        f = hdr('D', self.nr, st=self.clock) + order_body(self.npid())
        if x < 0.3:
            self.inbound(f, 'badsum', badsum=True)
        elif x < 0.45:
            self.inbound(f, 'badlen', lenoff=self.r.choice((-2, 3)))
        elif x < 0.6:
            self.inbound(hdr('D', self.nr, st=self.clock) + order_body(self.npid(), drop='55'), 'missing')
        elif x < 0.7:
            self.inbound(hdr('ZZ', self.nr, st=self.clock) + order_body(self.npid()), 'unknown-type')
        elif x < 0.8:
            # no MsgSeqNum at all
            self.inbound([x_ for x_ in f if x_[0] != '34'], 'no34')
        elif x < 0.9:
            self.inbound(f + [('9876', 'x')], 'unknown-tag')
        else:
            self.inbound(hdr('D', self.nr, st=self.clock) + [('11', 'A'), ('11', 'B')] + order_body(self.npid()), 'dupfield')
        self.nr += 1
        self.ns += 1

    def op_garbage(self):
        """malformed stream: a valid in-sequence frame with 1..3 bytes overwritten at random (still terminated by SOH)"""
        raw = bytearray(frame(hdr('D', self.nr, st=self.clock) + order_body(self.npid()))[0])
        for _ in range(self.r.randrange(1, 4)):
            raw[self.r.randrange(0, len(raw) - 1)] = self.r.choice((0x01, 0x3d, 0x33, 0x34, 0x39, 0x41, 0x7f, 0x80, 0xff, 0x2d, 0x30))
        self.emit('in ' + bytes(raw).hex(), kind='garbage')
        self.nr += 1

    def op_admin_too_high(self):
        t, body = self.r.choice((('0', []), ('1', [('112', '5')]), ('2', [('7', '1'), ('16', '0')]), ('5', [])))
        self.inbound(hdr(t, self.nr + self.r.choice((1, 3)), st=self.clock) + body, 'admin-high')
        self.nr += 1
        self.ns += 2
        if t == '5':
            self.alive = False

    def op_embedded34(self):
        """header values containing the text 34= (before and after the real field), and a data field with SOH 34="""
        x = self.r.random()
        fake = self.r.choice((self.nr, self.nr + 4, 1, 999))
        val = self.r.choice(('A34=%d', '34=%d', 'X134=%d')) % fake
        tag = self.r.choice(('115', '128', '50', '57', '116'))
        if x < 0.55:
            self.inbound(hdr('D', self.nr, st=self.clock, pre=[(tag, val)]) + order_body(self.npid()), 'embedded-before')
        elif x < 0.8:
            self.inbound(hdr('D', self.nr, st=self.clock, post=[(tag, val)]) + order_body(self.npid()), 'embedded-after')
        else:
            data = 'Z\x0134=%d' % fake
            self.inbound(hdr('D', self.nr, st=self.clock, pre=[('90', str(len(data))), ('91', data)]) + order_body(self.npid()), 'embedded-data')
        self.nr += 1

    def op_heartbeat(self):
        self.inbound(hdr('0', self.nr, st=self.clock), 'hb')
        self.nr += 1

    def op_test_request(self):
        self.inbound(hdr('1', self.nr, st=self.clock) + [('112', str(self.r.randrange(1, 999)))], 'testreq')
        self.nr += 1
        self.ns += 1

    def op_reject_in(self):
        self.inbound(hdr('3', self.nr + self.r.choice((0, 0, 2)), st=self.clock) + [('45', '2')], 'reject')
        self.nr += 1

    def op_logout_in(self):
        self.inbound(hdr('5', self.nr, st=self.clock), 'logout')
        self.nr += 1
        self.alive = False

    def op_logon_again(self):
        self.logon_reply(self.nr)
        self.nr += 1
        self.ns += 1

    def op_seq_reset(self, to=None):
        if to is None:
            to = self.nr + self.r.choice((0, 1, 1, 3, 10, -1))
        gf = self.r.random() < 0.7
        self.inbound(hdr('4', self.nr, st=self.clock) + ([('123', 'Y')] if gf else []) + [('36', str(max(to, 0)))], 'seqreset')
        if to >= self.nr:
            self.nr = to
        else:
            self.alive = False

    def op_resend_request(self):
        r = self.r
        top = max(self.ns - 1, 1)
        x = r.random()
        if x < 0.12 and self.sent:
            b = max(self.sent)                                               # only the newest stored message is at or above b
            e = r.choice((0, 0, b, top + 2))
        elif x < 0.55:
            b = r.randrange(1, top + 1)
            e = r.choice((0, 0, b, r.randrange(b, top + 1), top, top + 3))
        elif x < 0.7:
            b, e = top + r.choice((1, 2, 5)), r.choice((0, 0, top + 9))       # beyond what was sent
        elif x < 0.8:
            b, e = r.randrange(1, top + 1), 0
            e = 0
        elif x < 0.9:
            b = r.randrange(2, top + 2)
            e = r.randrange(1, b)                                            # begin > end
        else:
            b, e = 0, r.choice((0, 3))
        self.inbound(hdr('2', self.nr, st=self.clock) + [('7', str(b)), ('16', str(e))], 'resend')
        self.nr += 1
        if b >= self.ns:
            self.ns = b + 1

    # --- outbound
    def op_app(self):
        self.emit('app %d 0 0' % self.npid(), kind='send')
        self.sent.add(self.ns)
        self.ns += 1
        if self.r.random() < 0.5:
            self.gets(self.ns - 2, self.ns)

    def op_app_flags(self):
        if self.r.random() < 0.5:
            self.emit('app %d %d 0' % (self.npid(), self.r.choice((self.ns + 5, 1, 77))), kind='send-flags')
        else:
            self.emit('app %d 0 1' % self.npid(), kind='send-flags')
        self.gets(self.ns - 1, self.ns + 1)

    def op_adm(self):
        self.emit('adm 0 0', kind='send-adm')
        self.ns += 1

    def op_adm_flags(self):
        if self.r.random() < 0.5:
            self.emit('adm %d 0' % self.r.choice((self.ns + 5, 1)), kind='send-flags')
        else:
            self.emit('adm 0 1', kind='send-flags')

    def op_batch(self):
        n = self.r.randrange(1, 7)
        self.emit('batch ' + ' '.join(str(self.npid()) for _ in range(n)), kind='batch')
        for i in range(n):
            self.sent.add(self.ns + i)
        self.ns += n
        self.gets(self.ns - n - 1, self.ns)

    def op_fwd_dup(self):
        """outside _always_seqnum_assign a message that already carries a MsgSeqNum is a retransmission: no new number, nothing stored"""
        self.emit('fwd %d %d' % (self.npid(), self.r.choice((1, 2, max(1, self.ns - 1)))), kind='fwd-dup')
        self.gets(self.ns - 1, self.ns)

    def op_dbatch(self):
        """send_batch mixing new orders and retransmissions; half of them end with a retransmission"""
        n = self.r.randrange(1, 5)
        els, new = [], 0
        for i in range(n):
            if self.r.random() < 0.25 and self.ns > 2:
                els.append('%d@%d' % (self.npid(), self.r.randrange(1, self.ns)))
            else:
                els.append(str(self.npid()))
                new += 1
        if self.r.random() < 0.5 and self.ns > 1:
            els.append('%d@%d' % (self.npid(), self.r.randrange(1, self.ns)))
        self.emit('dbatch ' + ' '.join(els), kind='dbatch')
        for i in range(new):
            self.sent.add(self.ns + i)
        self.ns += new
        self.gets(self.ns - new - 1, self.ns)
        if self.r.random() < 0.4 and self.pk != 'none':
            self.op_restart()        # the control record is what the next incarnation starts from

    def op_wfail(self):
        """an application send whose socket write fails, then (usually) a further send that takes the same number"""
        self.emit('wfail %d' % self.npid(), kind='wfail')
        self.gets(self.ns - 1, self.ns)
        x = self.r.random()
        if x < 0.3 and self.pk != 'none':
            self.op_restart()
        if x < 0.8:
            self.op_app()
            self.gets(self.ns - 2, self.ns)

    def op_fwd(self):
        """a forwarded message: its header already carries a MsgSeqNum (only used with _always_seqnum_assign)"""
        self.emit('fwd %d %d' % (self.npid(), self.r.choice((3, 77, self.ns))), kind='fwd')
        self.ns += 1

    def op_bbatch(self):
        n = self.r.randrange(42, 50)
        self.emit('bbatch 2000 ' + ' '.join(str(self.npid()) for _ in range(n)), kind='bbatch')
        for i in range(n):
            self.sent.add(self.ns + i)
        self.ns += n
        self.gets(self.ns - n - 1, self.ns)

    def op_restart_rewind(self):
        """restart over the same (unpurged) store with a configured send number BELOW the numbers already used: the next application
        messages go out under numbers the store already holds (its put is refused; the control record must follow the session all the same)"""
        if self.pk == 'none' or self.ns <= 3:
            return self.op_restart()
        ss = self.r.randrange(1, self.ns - 1)
        self.emit('restart %d 0' % ss, kind='restart-rewind')
        self.ns = ss + 1
        self.alive = True
        for _ in range(self.r.randrange(1, 4)):
            self.op_app()

    def op_restart(self):
        if self.pk == 'none' and self.r.random() < 0.7:
            return
        ss = rs = 0
        if self.r.random() < 0.12:
            ss = self.ns + self.r.choice((0, 3))
        if self.r.random() < 0.12:
            rs = self.nr + self.r.choice((0, 2))
        self.emit('restart %d %d' % (ss, rs), kind='restart')
        if self.pk == 'none':
            self.ns, self.nr = 1, 1
        if ss:
            self.ns = ss
        if rs:
            self.nr = rs
        self.ns += 1
        self.alive = True
        x = self.r.random()
        if x < 0.85:
            self.logon_reply(self.nr)
            self.nr += 1
        elif x < 0.93:
            self.logon_reply(self.nr + 2)
            self.alive = False


BASE_W = dict(garbage=3, admin_too_high=1, in_seq=20, in_other_type=2, too_high=5, too_low=2, poss_dup=5, poss_dup_in_seq=1, bad_compid=2, corrupt=6, embedded34=5,
              heartbeat=3, test_request=3, reject_in=2, logout_in=1, logon_again=1, seq_reset=3, resend_request=8,
              app=14, app_flags=1, adm=3, adm_flags=1, batch=7, restart=3)


def weights(**over):
    w = dict(BASE_W)
    w.update(over)
    return w


def generate(pid, seed, nseg, nops, w, persist=('mem', 'file', 'none')):
    rng = vlib.rng_for(pid, seed)
    meta = {}
    g = Gen(rng, w, persist, meta)
    # every run has at least one segment of each special flavour the weights ask for (A: _always_seqnum_assign, X: extended operations)
    for flavour, key in (('A', '_always'), ('X', '_ext')):
        if w.get(key, 0.0) > 0:
            g.force = flavour
            g.segment(nops)
    g.force = None
    for _ in range(nseg):
        g.segment(rng.randrange(max(3, nops // 3), nops + 1))
    return g.lines, meta


def real34_offset(raw):
    """offset of the SOH in front of the MsgSeqNum FIELD of a frame (length-prefixed data fields are skipped as the
    decoder does), None if there is none; used for the class predicate `seqnum-from-data-field`"""
    pos, prev_tag, prev_val = 0, None, None
    n = len(raw)
    DATA = {b'91': b'90', b'96': b'95', b'89': b'93', b'349': b'348', b'351': b'350', b'353': b'352', b'355': b'354', b'357': b'356',
            b'359': b'358', b'361': b'360', b'363': b'362', b'365': b'364', b'213': b'212'}
    while pos < n:
        eq = raw.find(b'=', pos)
        if eq < 0:
            return None
        tag = raw[pos:eq]
        if tag in DATA and prev_tag == DATA[tag] and prev_val.isdigit():
            end = eq + 1 + int(prev_val)
            if end >= n or raw[end:end + 1] != b'\x01':
                end = raw.find(b'\x01', eq)
        else:
            end = raw.find(b'\x01', eq)
        if end < 0:
            return None
        if tag == b'34':
            return pos - 1
        prev_tag, prev_val = tag, raw[eq + 1:end]
        pos = end + 1
    return None


def scan_differs(raw):
    """class predicate: the first SOH "34=" of the raw bytes is not the MsgSeqNum field"""
    p = real34_offset(raw)
    return p is not None and raw.find(b'\x0134=') != p


def run_env():
    import os
    supp = os.path.join(vlib.CACHE, 'ubsan_sess.supp')
    # the library reads session-level header fields through Field<SeqNum,N>& casts of the generated Field<int,N> objects
    # (field.hpp from<T>()): same layout, flagged by -fsanitize=vptr; not in scope of these properties
    vlib.write_if_changed(supp, 'vptr:FIX8::Field<*\n')
    env = dict(vlib.ENV_RUN)
    env['UBSAN_OPTIONS'] = env.get('UBSAN_OPTIONS', '') + ':suppressions=' + supp
    return env


# ------------------------------------------------------------------------------------------------ two-phase run
def decide(res, *, pid, theorems, lines, oracle, what='', stream='sess'):
    """vlib.decide_stream with the driver lines augmented by the harness's abs{...} record of every inbound frame"""
    stash = {}
    real_run_harness, real_run_driver = vlib.run_harness, vlib.run_driver

    def run_harness(exe, lns, **kw):
        kw['env'] = run_env()
        outs, aborts = real_run_harness(exe, lns, **kw)
        stash['impl'] = outs
        return outs, aborts

    def run_driver(strm, lns, **kw):
        impl = stash.get('impl', [])
        dl = []
        for i, l in enumerate(lns):
            if l.startswith('in '):
                m = re.match(r'(abs\{[^}]*\})', impl[i] if i < len(impl) else '')
                dl.append(l + ' ' + (m.group(1) if m else 'abs{dec=null}'))
            else:
                dl.append(l)
        return real_run_driver(strm, dl, **kw)

    cnt = [0]

    def nontrivial(l):
        cnt[0] += 1
        return (cnt[0], l[:40]) if l.startswith(('in ', 'app', 'adm', 'batch', 'bbatch', 'dbatch', 'wfail', 'fwd', 'restart', 'new', 'get')) else None

    vlib.run_harness, vlib.run_driver = run_harness, run_driver
    try:
        return vlib.decide_stream(res, module='Fix8Model.Props.' + pid, theorems=theorems, stream=stream, harness_name='sess',
                                  lines=lines, oracle=oracle, nontrivial=nontrivial, harness_kw=HARNESS_KW, stateful=True,
                                  compare=compare, what=what, segment_start=lambda x: x.startswith('new'))
    finally:
        vlib.run_harness, vlib.run_driver = real_run_harness, real_run_driver


def read_replay(path):
    return [l.strip() for l in open(path) if l.strip() and not l.startswith('#')]


def stats(lines, impl):
    """measured input distribution"""
    d = {}
    for l, o in zip(lines, impl):
        k = l.split()[0]
        if k == 'in':
            evs, _ = parse(o)
            a = dict(evs).get('abs', {})
            k = 'in:' + (a.get('t', '?') if a.get('dec') == 'ok' else 'undecodable')
            if any(e[0] == 'dlv' for e in evs):
                k += ':delivered'
        d[k] = d.get(k, 0) + 1
    return d
