"""C16 outbound sequence numbers are consecutive and persisted: theorems Props.C16 + stream `sess`"""
import vlib
from props import sess_common as sc

THEOREMS = ['C16_step', 'C16_run', 'C16_consecutive', 'C16_no_repeats', 'C16_control_step', 'C16_control_history',
            'C16_control_from_start', 'C16_finding_control_ahead', 'C16_finding_control_ahead_logout',
            'C16_regression_control_after_reject', 'C16_finding_no_increment_repeat',
            'C16X_step', 'C16X_run', 'C16X_consecutive', 'C16X_no_repeats', 'C16X_control_step', 'C16X_control_history']


class Oracle:
    """independent statement of the property on the frames the implementation wrote and on the control record it persisted:
    every new message (no PossDupFlag, not a SequenceReset) carries the number after the previous new message; the first one the
    configured start number or 1; after the answer to a ResendRequest numbering continues from the last NewSeqNo announced (C18);
    a restart over a persister continues, without a persister it starts again at 1.  After each operation the control record
    equals (next send, next receive) of the session object."""

    def __init__(self):
        self.nxt = None        # number the next new message must carry
        self.pk = 'mem'
        self.resync = None     # class name while the expected number is unknown after an excluded send
        self.dirty = None      # class name while the control record is known to be off

    def __call__(self, line, out):
        evs, summ = sc.parse(out)
        w = line.split()
        if w[0] in ('get', 'clock') or summ is None or out.startswith(('stopped', 'no-session', 'bad-op', 'skipped', 'abort')):
            return (None, None)
        outs = [d for k, d in evs if k == 'out']
        a = next((d for k, d in evs if k == 'abs'), {})
        klass = None
        if w[0] == 'new':
            self.pk = w[1]
            self.nxt = int(w[3]) or 1
            self.resync = self.dirty = None
        elif w[0] == 'restart':
            if self.pk == 'none':
                self.nxt = 1
            if int(w[1]):
                self.nxt = int(w[1])
        flagged = (w[0] == 'app' and (w[2] != '0' or w[3] == '1')) or (w[0] == 'adm' and (w[1] != '0' or w[2] == '1'))
        # (a forwarded message under _always_seqnum_assign is a new message: it must be numbered like any other)
        ok = True
        # --- numbering
        if flagged:
            klass = 'custom-or-no-increment-send'
            self.resync = klass
        for f in outs:
            if not sc.is_new(f):
                continue
            seq = int(f['seq'])
            if self.resync and not flagged:
                # first plain message after an excluded send: its number is not constrained by the property
                klass = klass or self.resync
                self.resync = None
                if seq != self.nxt:
                    ok = False
            elif not flagged and seq != self.nxt:
                ok = False
            self.nxt = seq + 1 if not flagged else self.nxt
        if flagged:
            self.nxt = summ['ns']        # excluded class: take the counter as it is
        if w[0] == 'in' and a.get('t') == '2':
            fills = [f for f in outs if f.get('t') == '4' and f.get('new', '-') != '-']
            if fills:
                self.nxt = max(self.nxt, int(fills[-1]['new']))       # continue from the last NewSeqNo announced
        if not ok and klass is None:
            return (False, None)
        # --- control record
        if summ['ctrl'] is not None:
            good = summ['ctrl'] == (summ['ns'], summ['nr'])
            if flagged or any(f.get('t') == '5' and sc.is_new(f) for f in outs) and w[0] == 'in':
                self.dirty = 'control-ahead-after-no-increment'
            elif w[0] == 'in' and ((a.get('dec') == 'throw' and a.get('fl') == '0') or b'\x0134=' not in bytes.fromhex(w[1])):
                self.dirty = None            # reject exit: persists since the repair of control-behind-after-reject
            elif w[0] in ('new', 'restart', 'app', 'adm', 'batch', 'bbatch', 'fwd', 'dbatch', 'wfail') or (w[0] == 'in' and a.get('dec') == 'ok' and summ['sd'] == 0):
                self.dirty = None            # an effective step outside the excluded classes: the record must be right
            if good:
                self.dirty = None
            elif self.dirty:
                return (False, self.dirty)
            else:
                return (False, None)
        if not ok:
            return (False, klass)
        return (True, None)


def run(res, replay=None):
    if replay:
        lines = sc.read_replay(replay)
    else:
        n = (40, 45) if res.tier == 'quick' else (400, 60)
        w = sc.weights(app=22, batch=12, adm=6, app_flags=2, adm_flags=1, restart=7, resend_request=6, corrupt=5, test_request=5,
                       in_seq=14, too_high=4, logon_again=2, restart_rewind=2, _always=0.08, _ext=0.12, _big=0.05)
        lines, _ = sc.generate('C16', res.seed, n[0], n[1], w, persist=('mem', 'file', 'file', 'none'))
        lines = vlib.corpus_lines('C16') + lines
    res.assumptions += ['initiator role; model and theorems are for _always_seqnum_assign = false (8% of the segments run with it on, with forwarded messages that already carry a MsgSeqNum: those segments are judged by the property oracle only); in the modelled segments sends succeed at the socket (send() of the connection is captured); 12% of the segments (marked X; modelled by Sess.stepX, theorems C16X_*) add application retransmissions (a message that already carries a MsgSeqNum) alone and inside / at the tail of a batch, and application sends whose socket write fails',
                        'a restart = destroy Session and Connection, new objects over the same persister (FilePersister: files reopened), start() with recovery',
                        'MemoryPersister / FilePersister behave as the store specification (C26); no crash between the steps of a send (C27)']
    res.cov['rule'] = ('segments = fresh session (mem / file / no persister; 10% with configured start numbers) + logon handshake, then random mixes weighted towards application sends, batches of 1..6, '
                       'administrative sends, replies provoked by inbound traffic (Heartbeat to TestRequest, Reject, ResendRequest), resend answers, restarts with and without explicit numbers, '
                       'and a few custom_seqnum / no_increment sends (excluded class); every frame written is cut from the socket write and decoded; control record read after every operation')
    r = sc.decide(res, pid='C16', theorems=THEOREMS, lines=lines, oracle=Oracle())
    if r:
        res.cov['distribution'] = sc.stats(r['lines'], r['impl'])
        res.cov['new_messages_observed'] = sum(1 for o in r['impl'] for k, d in sc.parse(o)[0] if k == 'out' and sc.is_new(d))
