"""C20 sequence gaps are recovered with a conformant counterparty: theorems Props.C20 + stream `gap`
(harness/gap.cpp: a real initiator Session against a scripted conformant counterparty; Drivers/GapD.lean: the session model
composed with the Lean model of the counterparty).  The oracle below is a third, independent statement of the property
clauses evaluated on the implementation's outputs only."""
import itertools, re
import vlib
from props import sess_common as sc

THEOREMS = ['C20_recovery', 'C20_caught_up', 'C20_requests_missing_range', 'C20_trailing_never_bare', 'C20_recovery_trailing',
            'C20_finding_bare_replay', 'C20_bare_replay_masked_by_trailing_fill', 'C20_finding_in_flight', 'C20_finding_logon_ahead']
HARNESS_KW = dict(need_schema=True, extra_flags=['-ldl'], deps=['runtime/session.cpp', 'runtime/persist.cpp', 'runtime/filepersist.cpp'])
CLASSES = ('replay-without-gap-fill', 'frames-in-flight', 'logon-ahead')

_SUM = re.compile(r'\| st=(\S+) ns=(\d+) nr=(\d+) ctrl=(\S+) sd=(\d)')
_TAIL = re.compile(r'pns=(\d+) un=(\d+)$')
_EV = re.compile(r'(abs|out|dlv|adm)\{([^}]*)\}')


def parse(out):
    """-> (micros [[(kind, dict)]], final summary dict|None, pns, un)"""
    if '||' not in out:
        return None
    body, tail = out.rsplit('||', 1)
    micros = [[(m.group(1), sc.kv(m.group(2))) for m in _EV.finditer(part)] for part in body.split(' / ') if part.strip()]
    m = _SUM.search(tail)
    summ = dict(st=m.group(1), ns=int(m.group(2)), nr=int(m.group(3)), sd=int(m.group(5))) if m else None
    t = _TAIL.search(tail.strip())
    return micros, summ, (int(t.group(1)) if t else None), (int(t.group(2)) if t else None)


class Oracle:
    """The clauses of C20 on the implementation's outputs.  The oracle keeps its own account of what the counterparty has
    sent (from the script) and of what has reached the session in order; the classes are decided from that account alone."""

    def __init__(self):
        self.recovered = 0
        self.reset(False)

    def reset(self, trailing):
        self.trailing = trailing
        self.sent = []          # ('a', pid) | ('h', None) : everything the counterparty numbered, in order
        self.seen = 0           # how many of them the session has taken in, in order
        self.started = False
        self.delivered = []
        self.taint = None

    def apps(self, upto=None):
        s = self.sent if upto is None else self.sent[:upto]
        return [p for k, p in s if k == 'a']

    def __call__(self, line, out):
        w = line.split()
        if w[0] == 'new':
            self.reset(w[3] == '1')
            return (None, None)
        p = parse(out)
        if p is None or out.startswith(('bad-op', 'no-world', 'skipped', 'abort')):
            return (None, None)
        micros, summ, pns, un = p
        klass = None
        was_started = self.started
        behind = len(self.sent) - self.seen
        first_missing = self.seen + 1
        rr_answered = 0
        catch_up = False
        if w[0] == 'lose':
            self.sent.append((w[1][0], w[1][1:] or None))
        elif w[0] == 'connect':
            if behind > 0:
                klass = 'logon-ahead'
            self.started = True
            self.sent.append(('h', None))
            catch_up = True
        elif w[0] == 'peer':
            kinds = w[1:]
            if was_started and behind > 0:
                if len(kinds) > 1:
                    klass = 'frames-in-flight'
                elif not self.trailing and all(k == 'a' for k, _ in self.sent[self.seen:]) and kinds[0][0] == 'a':
                    klass = 'replay-without-gap-fill'
            for k in kinds:
                self.sent.append((k[0], k[1:] or None))
            for mi in micros[:len(kinds)]:
                rr_answered += sum(1 for kd, d in mi if kd == 'out' and d.get('t') == '2')
            if self.trailing:
                self.sent += [('h', None)] * rr_answered
            catch_up = was_started
        for mi in micros:
            self.delivered += [d.get('pid') for kd, d in mi if kd == 'dlv']
        if catch_up:
            self.seen = len(self.sent)
        if klass:
            self.taint = self.taint or klass
        if not self.started or summ is None:
            return (None, None)
        ok = True
        why = []
        if pns is not None and pns != len(self.sent) + 1:
            raise RuntimeError('harness counterparty out of step with the script: pns=%s, script says %d (%s)' % (pns, len(self.sent) + 1, line))
        # A  never terminated
        if summ['sd'] != 0:
            ok = False; why.append('terminated')
        # B  nothing delivered twice, out of order, or that was not sent
        if self.delivered != self.apps()[:len(self.delivered)]:
            ok = False; why.append('delivery order / duplicates')
        # C  after recovery: expected number = the counterparty's next, every application message delivered
        if catch_up:
            if summ['nr'] != len(self.sent) + 1 or summ['st'] != 'continuous':
                ok = False; why.append('expected %d != next %d or not continuous' % (summ['nr'], len(self.sent) + 1))
            if self.delivered != self.apps():
                ok = False; why.append('application messages missing')
        # D  a gap is answered by a ResendRequest for exactly the missing range
        if w[0] == 'peer' and was_started and behind > 0 and self.taint in (None, klass):
            rr = [d for kd, d in (micros[0] if micros else []) if kd == 'out' and d.get('t') == '2']
            if len(rr) != 1 or rr[0].get('b') != str(first_missing) or rr[0].get('e') != '0':
                ok = False; why.append('no ResendRequest for %d..0' % first_missing)
            elif klass is None:
                self.recovered += 1
        # E  no ResendRequest raised while an answer was being consumed
        if un:
            ok = False; why.append('unanswered ResendRequest')
        if ok:
            return (True, None)
        self.why = why
        return (False, klass or self.taint)


# ------------------------------------------------------------------------------------------------ generator
def segment(r, lines, meta, free, nops):
    pk = r.choice(('mem', 'file'))
    enf = 1 if r.random() < 0.7 else 0
    tr = 1 if r.random() < 0.5 else 0
    lines.append('new %s %d %d' % (pk, enf, tr))
    pid = [1000]
    pend = []        # kinds sent and not yet seen by the session
    started = False

    def kind(p_app=0.7):
        if r.random() < p_app:
            pid[0] += 1
            return 'a%d' % pid[0]
        return 'h'

    if free and r.random() < 0.25:
        for _ in range(r.randrange(1, 3)):
            lines.append('lose ' + kind()); pend.append(1)
    for _ in range(nops):
        x = r.random()
        if not started or x < 0.06:
            if pend and not free:
                continue        # a clean history reconnects only when nothing is missing
            lines.append('connect'); started = True
            if pend:
                return          # logon-ahead: the session is gone
            continue
        if x < 0.30 and len(pend) < 5:
            k = kind()
            lines.append('lose ' + k); pend.append(k[0])
            continue
        if x < 0.40:
            pid[0] += 1
            lines.append('sess %d' % pid[0]); continue
        if x < 0.50:
            lines.append('tick %d' % r.choice((1, 7, 250, 1000, 61000))); continue
        # a frame arrives
        k = kind()
        infl = []
        if pend:
            if free:
                if r.random() < 0.3:
                    infl = [kind() for _ in range(r.randrange(1, 3))]
            elif tr == 0 and all(c == 'a' for c in pend) and k[0] == 'a':
                if r.random() < 0.5:
                    k = 'h'
                else:
                    lines.append('lose h')
        elif r.random() < 0.3:
            infl = [kind() for _ in range(r.randrange(1, 4))]
        lines.append('peer ' + ' '.join([k] + infl))
        pend = []
    if free and r.random() < 0.5:
        lines.append('connect')
        lines.append('peer ' + kind())


def generate(seed, nseg, nops):
    r = vlib.rng_for('C20', seed)
    lines, meta = [], {}
    for _ in range(nseg):
        segment(r, lines, meta, free=r.random() < 0.35, nops=r.randrange(max(4, nops // 3), nops + 1))
    return lines


def exhaustive(depth):
    """every history of `depth` events over a small alphabet after the first connection, for both counterparty styles"""
    alpha = ['connect', 'lose a', 'lose h', 'peer a', 'peer h', 'peer a a', 'sess']
    lines = []
    for tr in (0, 1):
        for combo in itertools.product(alpha, repeat=depth):
            lines.append('new mem 1 %d' % tr)
            lines.append('connect')
            n = 2000
            for op in combo:
                ws = op.split()
                for i in range(1, len(ws)):
                    if ws[i] == 'a':
                        n += 1; ws[i] = 'a%d' % n
                if ws[0] == 'sess':
                    n += 1; ws.append(str(n))
                lines.append(' '.join(ws))
            lines.append('peer a%d' % (n + 1))
    return lines


def compare(line, impl, model):
    return sc.canon(impl) == model


def resilient_run(real_run, notes):
    """run_harness for scripts made of independent segments (each starts with `new`, which resets the harness completely):
    a sanitizer abort / crash ends the process; the segment it happened in is re-run ONCE in a fresh process together with
    everything after it.  If it dies again at the same line the abort is genuine (deterministic) and is kept as the result;
    otherwise it was a transient of the process (seen once in ~58 000 session constructions: ASan heap-use-after-free in
    ff::SWSR_Ptr_Buffer::empty(), FastFlow allocator, between the Timer thread every Session constructor starts and the
    logger thread - a teardown race outside this property) and the run continues; it is counted in the evidence."""
    def run(exe, lns, **kw):
        kw['env'] = sc.run_env()
        outs, aborts = [], []
        pos, last = 0, None
        while pos < len(lns):
            o, ab = real_run(exe, lns[pos:], **kw)
            if not ab:
                outs += o
                break
            i = ab[0][0]                      # index (relative to pos) of the line that died
            j = i
            while j > 0 and not lns[pos + j].startswith('new'):
                j -= 1
            if last == pos + i or j == 0 and pos > 0 and last is not None and last >= pos:
                # second death at the same line (or no progress): genuine
                outs += o
                aborts += [(pos + k, e) for k, e in ab]
                break
            notes.append('transient abort at line %d (%s), segment re-run: %s' % (pos + i, lns[pos + i][:40], (ab[0][1] or '')[-300:].replace('\n', ' ')[:200]))
            last = pos + i
            outs += o[:j]
            pos += j
        return outs, aborts
    return run


def run(res, replay=None):
    if replay:
        lines = sc.read_replay(replay)
    else:
        if res.tier == 'quick':
            lines = generate(res.seed, 60, 24) + exhaustive(2)
        else:
            lines = generate(res.seed, 400, 40) + exhaustive(5)
        lines = vlib.corpus_lines('C20') + lines
    res.assumptions += ['initiator role, no SessionConfig (the default: ignore_logon_sequence_check off), _always_seqnum_assign off; the application is the pattern of every sample application: `enforce(seqnum, msg) || deliver`',
                        'the counterparty is the scripted conformant peer of harness/gap.cpp (real FIX frames, each decoded by the real Message::factory); nothing is lost in the direction session -> counterparty',
                        'a frame is either delivered in order or lost; a ResendRequest is answered at once except for the frames listed as in flight',
                        'the counterparty sends no Logout / TestRequest / ResendRequest of its own (C18, C22 cover those)']
    res.cov['rule'] = ('segments = fresh persister (memory / file) x CompID enforcement x counterparty style (plain / closes replays with a one-number gap fill); 65%% clean histories '
                       '(losses of application and administrative messages in runs of 1..5, arrivals with frames in flight while in step, session sends, clock, reconnects when nothing is missing), '
                       '35%% free histories (also: frames in flight behind a gap, reconnects while numbers are missing, losses before the first connection, replays without any gap fill) + every history of '
                       '%d events over {connect, lose app/admin, arrive app/admin, arrive with one in flight, session send} for both styles; distinct by (position, line)' % (2 if res.tier == 'quick' else 5))
    oracle = Oracle()
    cnt = [0]

    def nontrivial(l):
        cnt[0] += 1
        return (cnt[0], l[:40]) if not l.startswith('tick') else None

    real_run = vlib.run_harness
    transient = []
    vlib.run_harness = resilient_run(real_run, transient)
    try:
        r = vlib.decide_stream(res, module='Fix8Model.Props.C20', theorems=THEOREMS, stream='gap', harness_name='gap', lines=lines, oracle=oracle,
                               nontrivial=nontrivial, harness_kw=HARNESS_KW, stateful=True, compare=compare, segment_start=lambda x: x.startswith('new'))
    finally:
        vlib.run_harness = real_run
    if transient:
        res.notes += transient
    if r:
        d = {}
        gaps = 0
        for l, o in zip(r['lines'], r['impl']):
            k = l.split()[0]
            if k == 'peer':
                k = 'peer+inflight' if len(l.split()) > 2 else 'peer'
                if 't=2,' in o:
                    k += ':gap'; gaps += 1
            d[k] = d.get(k, 0) + 1
        res.cov['distribution'] = d
        res.cov['gaps_detected'] = gaps
        res.cov['gaps_recovered_outside_known_classes'] = oracle.recovered
        hits = res.cov.get('known_class_hits', {})
        missing = [c for c in CLASSES if c not in hits]
        if missing and not replay and not res.violations:
            # the witnesses of the known findings must FAIL on the implementation; otherwise either the code was repaired
            # (then the finding has to be retired) or the machinery no longer sees what it claims to see
            res.notes.append('known finding(s) no longer reproduce: %s' % ', '.join(missing))
