"""C24 session activation schedule: theorems Props.C24 + stream `sched`
(the real Schedule::test on a virtual clock, Configuration::create_schedule on generated <schedule> elements, decode_dow)"""
import bisect, datetime, vlib, gen_facts

THEOREMS = ['C24_daily_step', 'C24_daily', 'C24_weekly_step', 'C24_weekly', 'C24_weekly_minute', 'C24_first_check_from_outside',
            'C24_same_day_stuck', 'C24_wrap_adjacent_latches', 'C24_wrap_closes_a_day_late', 'C24_create',
            'C24_unique_prefixes', 'C24_decode_dow', 'C24_decode_dow_range',
            'C24_finding_open_end', 'C24_finding_same_day', 'C24_finding_same_day_is_the_default', 'C24_finding_wrap_around',
            'C24_finding_range_shorter_than_gap', 'C24_finding_end_near_midnight', 'C24_finding_first_check']

NS = 10 ** 9
MINUTE = 60 * NS
DAY = 86400 * NS
ERR = 2 ** 63 - 1
MON = 1704067200 * NS           # Monday 2024-01-01 00:00:00 utc
EPOCH = datetime.date(1970, 1, 1)

# ------------------------------------------------------------------------------------------------
# the property, stated independently of the model: calendar arithmetic with python's datetime

WEEKDAYS = ['sunday', 'monday', 'tuesday', 'wednesday', 'thursday', 'friday', 'saturday']


def unique_prefix(d):
    """shortest prefix of the English weekday name that no other weekday name starts with"""
    n = WEEKDAYS[d]
    for k in range(1, len(n) + 1):
        if not any(o.startswith(n[:k]) for i, o in enumerate(WEEKDAYS) if i != d):
            return n[:k]


PREFIX = [unique_prefix(d) for d in range(7)]       # su m tu w th f sa


def spec_dow(b):
    """weekday named by a byte string: the digit 0-6, or text that begins (case-insensitively) with the unique prefix"""
    if len(b) == 1 and 48 <= b[0] <= 54:
        return b[0] - 48
    low = bytes(c + 32 if 65 <= c <= 90 else c for c in b)
    hits = [d for d in range(7) if low.startswith(PREFIX[d].encode())]
    return hits[0] if len(hits) == 1 else -1


def date_of(local_ns):
    return EPOCH + datetime.timedelta(days=local_ns // DAY)


def midnight(date):
    return (date - EPOCH).days * DAY


def sunday0(date):
    return (date.weekday() + 1) % 7


def point(local_ns):
    """(weekday 0 = Sunday, time of day) of a local reading, through datetime"""
    secs, ns = divmod(local_ns, NS)
    dt = datetime.datetime(1970, 1, 1) + datetime.timedelta(seconds=secs)
    return sunday0(dt.date()), (dt.hour * 3600 + dt.minute * 60 + dt.second) * NS + ns


def in_daily(s, e, local_ns):
    return s <= point(local_ns)[1] <= e


def windows(s, e, sd, ed, lo, hi):
    """the activation windows (closed intervals of local readings) that meet [lo, hi]"""
    out = []
    d = date_of(lo) - datetime.timedelta(days=9)
    last = date_of(hi) + datetime.timedelta(days=1)
    while d <= last:
        if sd < 0:
            out.append((midnight(d) + s, midnight(d) + min(e, DAY - 1)))
        elif sunday0(d) == sd:
            close_day = d + datetime.timedelta(days=(ed - sd) % 7)      # the end day on or after the start day
            out.append((midnight(d) + s, midnight(close_day) + e))
        d += datetime.timedelta(days=1)
    return [w for w in out if w[0] <= w[1]]


def in_weekly(s, e, sd, ed, local_ns):
    return any(a <= local_ns <= b for a, b in windows(s, e, sd, ed, local_ns, local_ns))


def lcg_gaps(n, seed, mg):
    x, out = seed, []
    for _ in range(n - 1):
        x = (x * 6364136223846793005 + 1442695040888963407) & 0xFFFFFFFFFFFFFFFF
        out.append(1 + (x >> 11) % mg)
    return out


def instants(t0, spec):
    p = spec.split(':')
    if p[0] == 'f':
        n, g = int(p[1]), int(p[2])
        return [t0 + i * g for i in range(n)], (g if n > 1 else 0), (g if n > 1 else 0)
    if p[0] == 'r':
        ds = lcg_gaps(int(p[1]), int(p[2]), int(p[3]))
    else:
        ds = [] if p[1] == '-' else [int(x) for x in p[1].split(',')]
    ts, t = [t0], t0
    for d in ds:
        t += d
        ts.append(t)
    return ts, (max(ds) if ds else 0), (min(ds) if ds else 0)


def expected_states(s, e, sd, ed, off, ts):
    """run-length form of "inside a window" along the trace: (state at the first check, indices where it changes)"""
    loc = [t + off * MINUTE for t in ts]
    marks = [0] * (len(ts) + 1)
    for a, b in windows(s, e, sd, ed, loc[0], loc[-1]):
        i, j = bisect.bisect_left(loc, a), bisect.bisect_right(loc, b)
        if i < j:
            marks[i] += 1
            marks[j] -= 1
    flips, depth, prev, s0 = [], 0, None, None
    for i in range(len(ts)):
        depth += marks[i]
        cur = depth > 0
        if i == 0:
            s0 = cur
        elif cur != prev:
            flips.append(i)
        prev = cur
    return s0, flips


def state_at(s0, flips, i):
    return s0 ^ (bisect.bisect_right(flips, i) % 2 == 1)


def parse_rle(out):
    w = out.split()
    if len(w) != 3 or not w[0].startswith('n=') or not w[1].startswith('s0=') or not w[2].startswith('flips='):
        return None
    f = w[2][6:]
    return int(w[0][2:]), w[1][3:] == '1', ([] if f == '-' else [int(x) for x in f.split(',')])


def hms(txt):
    if txt == '-' or len(txt) != 8:
        return None
    return (int(txt[0:2]) * 3600 + int(txt[3:5]) * 60 + int(txt[6:8])) * NS


def cfg_expect(w):
    """what the configuration asks for: (kind, start, end, dur, utc, sd, ed)"""
    st, en = hms(w[0]), hms(w[1])
    dur = 0 if w[2] == '-' else int(w[2])
    utc = 0 if w[3] == '-' else int(w[3])
    if st is None:
        return ('invalid',)
    if en is None:
        en = st + dur * MINUTE if dur else ERR
    elif en <= st:
        return ('throw:ConfigurationError',)
    sd = spec_dow(bytes.fromhex(w[4][1:])) if w[4] != '-' else -1
    ed = spec_dow(bytes.fromhex(w[5][1:])) if w[5] != '-' else (sd if sd >= 0 else -1)
    return ('ok', st, en, dur, utc, sd, ed)


def tk(s):
    return ERR if s == 'E' else int(s)


def weekly_class(s, e, sd, ed, off, init, ts, gmax):
    """the known-finding class of a weekly trace (mirrors `Excluded` of Props/C24.lean), None = outside every class"""
    if sd == ed:
        return 'weekly-same-day'
    if sd > ed:
        return 'weekly-wrap-around'
    if e < s + gmax:
        return 'weekly-range-shorter-than-gap'
    if e + gmax >= DAY:
        return 'weekly-end-near-midnight'
    l0 = ts[0] + off * MINUTE
    wd, tod = point(l0)
    inside = in_weekly(s, e, sd, ed, l0)
    if (init and not inside and not (wd >= ed and tod > e)) or (not init and inside and not (s <= tod <= e)):
        return 'weekly-first-check'
    return None


def trace_oracle(s, e, sd, ed, off, init, t0, gaps, out):
    ts, gmax, gmin = instants(t0, gaps)
    if e == ERR:
        # no end configured: Tickval::in_range documents "if an error value, ignore upper range" -> active from the start time on
        return (False, 'open-end-overflow') if out.startswith('abort:ubsan:signed_integer_overflow') else (None, None)
    got = parse_rle(out)
    if got is None or got[0] != len(ts):
        return (False, None)
    if gmin < 0 or ts[0] + off * MINUTE < 0:
        return (None, None)
    if sd >= 0 and not (0 <= sd <= 6 and 0 <= ed <= 6 and s < e and gmax <= MINUTE):
        return (None, None)                     # outside the domain of the weekly clause (correspondence only)
    if not (0 <= s < DAY and 0 <= e):
        return (None, None)
    s0, flips = expected_states(s, e, sd, ed, off, ts)
    # cross-check of the run-length computation against the pointwise statement on a few indices
    for i in sorted(set([0, len(ts) - 1] + flips[:6] + [max(0, f - 1) for f in flips[:6]])):
        l = ts[i] + off * MINUTE
        want = in_daily(s, e, l) if sd < 0 else in_weekly(s, e, sd, ed, l)
        if want != state_at(s0, flips, i):
            raise RuntimeError('oracle inconsistency at index %d of %r' % (i, (s, e, sd, ed, off, t0, gaps)))
    if (s0, flips) == (got[1], got[2]):
        return (True, None)
    if sd < 0:
        return (False, None)
    return (False, weekly_class(s, e, sd, ed, off, init, ts, gmax))


def oracle(line, out):
    w = line.split()
    if out.startswith('bad-op') or out == 'skipped':
        return (False, None)
    if w[0] == 'consts':
        return (None, None)
    if w[0] == 'dow':
        b = bytes.fromhex(w[1]) if w[1] != '-' else b''
        return (out == str(spec_dow(b)), None)
    if w[0] == 'cfg':
        x = cfg_expect(w[1:7])
        if x[0] != 'ok':
            return (out == x[0], None)
        if w[5] != '-' and x[5] < 0 or w[6] != '-' and x[6] < 0 and x[5] >= 0:
            return (None, None)                 # an undecodable weekday: the statement does not say what the schedule becomes
        return (out == 'ok %s %s %d %d %d %d %d' % (x[1], 'E' if x[2] == ERR else x[2], x[3], x[4], x[5], x[6], x[4] * MINUTE), None)
    if w[0] == 'at':
        s, e, off, sd, clk = tk(w[1]), tk(w[2]), int(w[3]), int(w[4]), int(w[6])
        if e == ERR and out.startswith('abort:ubsan:signed_integer_overflow'):
            return (False, 'open-end-overflow')
        if out.startswith('abort'):
            return (None, None) if abs(off) > 10 ** 6 or abs(s) > 2 ** 61 or abs(e) > 2 ** 61 else (False, None)
        if sd < 0 and e != ERR and clk + off * MINUTE >= 0 and 0 <= s < DAY and 0 <= e:
            return (out == ('1' if in_daily(s, e, clk + off * MINUTE) else '0'), None)
        return (None, None)
    if w[0] == 'run':
        return trace_oracle(tk(w[1]), tk(w[2]), int(w[4]), int(w[5]), int(w[3]), w[6] == '1', int(w[7]), w[8], out)
    if w[0] == 'runx':
        x = cfg_expect(w[1:7])
        if x[0] != 'ok':
            return (out == x[0], None)
        if w[5] != '-' and x[5] < 0 or w[6] != '-' and x[6] < 0 and x[5] >= 0:
            return (None, None)
        return trace_oracle(x[1], x[2], x[5], x[6], x[4], w[7] == '1', int(w[8]), w[9], out)
    return (False, None)


def compare(line, impl, model):
    if model == 'ub':
        return impl.startswith('abort:ubsan:signed_integer_overflow')
    return impl == model


# ------------------------------------------------------------------------------------------------
# generators

OFFSETS = [0, 0, 600, -300, 330, -480, 765, -720, 840, 60, -60]
NAMES = ['sunday', 'monday', 'tuesday', 'wednesday', 'thursday', 'friday', 'saturday', 'Sun', 'MON', 'Tue', 'wed', 'THU', 'Fri', 'sat',
         'su', 'mo', 'tu', 'we', 'th', 'fr', 'sa', 's', 't', 'm', 'w', 'f', 'SU', 'Sa', 'tH', '0', '1', '2', '3', '4', '5', '6', '7', '8', '9',
         '00', '10', '1 ', 'x', 'sx', 'tx', 'so', 'ta', 'mx', 'wz', 'fa', 'sunday1', 'satur', ' mo', 'mo ', 'day', '', 'S', 'T', 'Suxx', 'Thing']


def fmt_hms(ns):
    s = ns // NS
    return '%02d:%02d:%02d' % (s // 3600, s // 60 % 60, s % 60)


def time_class(rng, k):
    """(start, end) time-of-day classes, whole seconds"""
    if k == 0:
        return 9 * 3600 * NS, 17 * 3600 * NS
    if k == 1:
        return 0, DAY - NS                                      # all day
    if k == 2:
        s = rng.randrange(0, 86000) * NS
        return s, s + rng.randrange(1, 60) * NS                 # shorter than a minute
    if k == 3:
        return rng.randrange(0, 80000) * NS, (86340 + rng.randrange(1, 60)) * NS    # ends in the last minute of the day
    if k == 4:
        s = rng.randrange(0, 86000) * NS
        return s, s + 60 * NS                                   # exactly one polling distance
    s = rng.randrange(0, 86398)
    return s * NS, rng.randrange(s + 1, 86400) * NS


def hexs(txt):
    return 'h' + txt.encode('latin1').hex()


def day_text(rng, d):
    """a spelling of weekday d"""
    full = WEEKDAYS[d]
    c = rng.random()
    if c < 0.25:
        t = str(d)
    elif c < 0.5:
        t = full[:rng.randrange(len(PREFIX[d]), len(full) + 1)]
    elif c < 0.7:
        t = PREFIX[d]
    else:
        t = full[:3]
    return ''.join(ch.upper() if rng.random() < 0.3 else ch for ch in t)


def gen_dow(rng, thorough):
    pr = list(range(32, 127))
    lines = ['dow -']
    lines += ['dow %02x' % a for a in range(256)]
    lines += ['dow %02x%02x' % (a, b) for a in pr for b in pr]
    if thorough:
        lines += ['dow %02x%02x%02x' % (a, b, c) for a in pr for b in pr for c in pr]
    else:
        heads = [ord(c) for c in 'sStTmMwWfF0167x ']
        for _ in range(4000):
            a = rng.choice(heads) if rng.random() < 0.7 else rng.choice(pr)
            lines.append('dow %02x%02x%02x' % (a, rng.choice(pr), rng.choice(pr)))
    for n in NAMES:
        if n:
            lines.append('dow ' + n.encode().hex())
    for _ in range(600 if not thorough else 6000):
        ln = rng.choice((1, 2, 3, 4, 6, 9, 20))
        b = bytes(rng.choice(b'sStTmMwWfFuUaAhHoOeErR0123456789') if rng.random() < 0.6 else rng.randrange(0, 256) for _ in range(ln))
        lines.append('dow ' + b.hex())
    return lines


def gen_cfg(rng, n):
    lines = []
    for _ in range(n):
        s, e = time_class(rng, rng.randrange(0, 6))
        c = rng.random()
        st = fmt_hms(s) if rng.random() < 0.95 else rng.choice(['-', '9:00:00', '09:00'])
        if c < 0.55:
            en, du = fmt_hms(e), '-'
        elif c < 0.7:
            en, du = '-', str(rng.choice([1, 30, 90, 600, 1439, 1441, 3000]))
        elif c < 0.8:
            en, du = '-', rng.choice(['-', '0'])
        elif c < 0.9:
            en, du = fmt_hms(s if rng.random() < 0.4 else rng.randrange(0, s // NS + 1) * NS), rng.choice(['-', '30'])       # end <= start
        else:
            en, du = fmt_hms(e), str(rng.randrange(1, 100))
        ut = '-' if rng.random() < 0.3 else str(rng.choice(OFFSETS + [rng.randrange(-900, 900)]))
        def day():
            c = rng.random()
            if c < 0.3:
                return '-'
            if c < 0.8:
                return hexs(day_text(rng, rng.randrange(0, 7)))
            return hexs(rng.choice(NAMES).replace(' ', ''))
        lines.append('cfg %s %s %s %s %s %s' % (st, en, du, ut, day(), day()))
    return lines


def gen_at(rng, n):
    lines = []
    for _ in range(n):
        s, e = time_class(rng, rng.randrange(0, 6))
        off = rng.choice(OFFSETS + [rng.randrange(-1500, 1500)])
        if rng.random() < 0.6:
            sd = ed = -1
        else:
            sd, ed = rng.randrange(-1, 8), rng.randrange(-2, 9)
        clk = MON + rng.randrange(0, 28 * DAY)
        c = rng.random()
        if c < 0.3:                                   # on or next to an edge of the daily range, in local time
            edge = rng.choice((s, e, 0, DAY - 1))
            clk = MON + rng.randrange(0, 28) * DAY + edge - off * MINUTE + rng.choice((-1, 0, 1, -NS, NS))
        elif c < 0.35:
            clk = rng.randrange(0, 3 * DAY)           # near the epoch: the local reading can be negative
        lines.append('at %d %d %d %d %d %d %d' % (s, e, off, sd, ed, max(clk, 0), rng.randrange(0, 2)))
    return lines


def gen_ub(rng, n):
    lines = []
    for _ in range(n):
        s, _ = time_class(rng, 0)
        lines.append('at %d E %d -1 -1 %d %d' % (s, rng.choice(OFFSETS), MON + rng.randrange(0, 7 * DAY), rng.randrange(0, 2)))
    lines.append('runx 09:00:00 - - - - - 0 %d l:-' % (MON + 10 * 3600 * NS))
    lines.append('at 0 0 200000000 -1 -1 %d 0' % MON)         # _toffset itself overflows in the constructor
    return lines


def first_sd(sd, off, after):
    """utc instant of the first local midnight of weekday sd at or after `after`"""
    d = date_of(after + off * MINUTE)
    while sunday0(d) != sd:
        d += datetime.timedelta(days=1)
    return midnight(d) - off * MINUTE


def gen_runs(rng, thorough):
    lines = []
    pairs = [(-1, -1)] * 8 + [(a, b) for a in range(7) for b in range(7)]
    variants = [(k, o) for k in range(6) for o in range(2)] if thorough else None
    for (sd, ed) in pairs:
        todo = variants if thorough else [(rng.randrange(0, 6), rng.randrange(0, 4)) for _ in range(2 if 0 <= sd < ed else 1)]
        for (k, oi) in todo:
            if not thorough and 0 <= sd < ed and rng.random() < 0.7:
                k = rng.choice((0, 4, 5))                # mostly inside the proved domain
            s, e = time_class(rng, k)
            off = rng.choice(OFFSETS)
            init = rng.randrange(0, 2)
            t0 = MON + rng.randrange(0, 7 * DAY) + (rng.randrange(0, NS) if rng.random() < 0.5 else 0)
            if sd >= 0 and rng.random() < 0.7:           # mostly a start state that agrees with the window
                init = 1 if in_weekly(s, e, sd, ed, t0 + off * MINUTE) else 0
            # three weeks at 30 s steps (or at random distances up to a minute)
            if rng.random() < 0.5:
                gaps = 'f:60480:30000000000'
            elif rng.random() < 0.5:
                gaps = 'r:60480:%d:%d' % (rng.randrange(1, 2 ** 63), MINUTE)
            else:
                gaps = 'f:%d:%d' % (21 * 86400 // 59, 59 * NS + rng.randrange(0, NS))
            if rng.random() < 0.5:
                lines.append('run %d %d %d %d %d %d %d %s' % (s, e, off, sd, ed, init, t0, gaps))
            else:
                lines.append('runx %s %s - %d %s %s %d %d %s' % (fmt_hms(s), fmt_hms(e), off,
                             '-' if sd < 0 else hexs(day_text(rng, sd)), '-' if sd < 0 else (hexs(day_text(rng, ed)) if (ed != sd or rng.random() < 0.5) else '-'),
                             init, t0, gaps))
    # dense polling (1 s, as Session does, or sub-second) across the edges of a window, with checks exactly on the edge
    for _ in range(160 if not thorough else 1600):
        sd = rng.choice([-1, -1] + list(range(7)))
        ed = -1 if sd < 0 else (rng.randrange(sd + 1, 7) if sd < 6 and rng.random() < 0.7 else rng.randrange(0, 7))
        s, e = time_class(rng, rng.choice((0, 0, 2, 3, 4, 5)))
        off = rng.choice(OFFSETS)
        base = first_sd(max(sd, 0), off, MON + rng.randrange(0, 14 * DAY))
        if rng.random() < 0.5:
            edge = base + s                                                  # the window opens
        else:
            edge = base + (((ed - sd) % 7) * DAY if sd >= 0 else 0) + e      # the window closes
        step = rng.choice((NS, NS, 30 * NS, 60 * NS, 59 * NS, 500000000, 7 * NS))
        before = rng.randrange(1, 6)
        ds = [step] * (before - 1) + [rng.randrange(1, step + 1)]            # ... then land exactly on the edge
        ds += [1, step - 1 if step > 1 else 1] + [step] * rng.randrange(2, 8)
        t0 = edge - sum(ds[:before])
        init = rng.randrange(0, 2)
        if sd >= 0 and rng.random() < 0.7:
            init = 1 if in_weekly(s, e, sd, ed, t0 + off * MINUTE) else 0
        lines.append('run %d %d %d %d %d %d %d l:%s' % (s, e, off, sd, ed, init, t0, ','.join(map(str, ds))))
    return lines


def gen(rng, thorough):
    lines = ['consts']
    lines += gen_runs(rng, thorough)
    lines += gen_cfg(rng, 300 if not thorough else 3000)
    lines += gen_at(rng, 1500 if not thorough else 20000)
    lines += gen_ub(rng, 12 if not thorough else 40)
    lines += gen_dow(rng, thorough)
    return lines


def run(res, replay=None):
    rng = vlib.rng_for('C24', res.seed)
    errs = gen_facts.generate(['sched'])
    if replay:
        lines = [l.strip() for l in open(replay) if l.strip() and not l.startswith('#')]
    else:
        lines = vlib.corpus_lines('C24') + gen(rng, res.tier == 'thorough')
    res.assumptions += [
        'the clock is an input of the model; the harness drives the real Schedule::test through an interposed clock_gettime (harness/vclock.hpp), TZ=UTC (Tickval::get_tm uses gmtime_r, so TZ does not matter)',
        'gmtime_r is modelled as tm_wday = (floor(seconds / 86400) + 4) mod 7; std::multimap as an insertion-ordered sorted list; isupper/tolower/isdigit in the "C" locale',
        'signed overflow of Tickval arithmetic is undefined behaviour: the model reports it as `ub`, the harness as a UBSan abort; the theorems assume readings between 1970 and 2116 and times below 2^62 ticks',
        'create_schedule is exercised through a real Configuration built from a generated XML document; the HH:MM:SS parser (time_parse) belongs to C09 and only well-formed times are generated',
        'Tickval constants and the two weekday tables are extracted from include/fix8/tickval.hpp and runtime/f8utils.cpp into Gen/Sched.lean on every run',
        'weekly clause: proved outside the classes weekly-same-day, weekly-wrap-around, weekly-range-shorter-than-gap, weekly-end-near-midnight, weekly-first-check (each with a witness theorem and a corpus replay); the oracle classifies a failing trace with the same predicates']
    res.cov['rule'] = ('traces: every (start_day,end_day) pair incl. equal days + daily, x time-of-day classes (office hours, all day, shorter than a minute, ending in the last minute, exactly a minute, random) x utc offsets '
                       '(0, +-whole hours, +330, +765, -720, +840), three weeks at 30 s / 59.x s / random distances <= 60 s, built through the constructor or through create_schedule; dense traces (0.5 s .. 60 s) that land exactly on and 1 ns past a window edge; '
                       'single checks incl. edges of the daily range, odd weekday values and readings near the epoch; generated <schedule> elements (end<=start, duration, missing attributes, weekday spellings); '
                       'decode_dow on every byte, every printable pair, ' + ('EVERY printable triple' if res.tier == 'thorough' else '4000 triples') + ', weekday spellings and random byte strings. distinct by line; non-trivial = everything but `consts`')
    res.cov['exhaustive'] = False          # the run as a whole is a sample; one part is enumerated completely in the thorough tier:
    res.cov['exhaustive_part'] = 'decode_dow: all strings of length <= 3 over printable ASCII' if res.tier == 'thorough' else ''
    r = vlib.decide_stream(res, module='Fix8Model.Props.C24', theorems=THEOREMS, stream='sched', harness_name='sched',
                       lines=lines, oracle=oracle, compare=compare, nontrivial=lambda l: None if l == 'consts' else l,
                       harness_kw=dict(need_lib=True, extra_flags=['-ldl']), extra_obligation_problems=errs)
    if r:
        st = {}
        checks = 0
        for l, o in zip(r['lines'], r['impl']):
            w = l.split()
            ok, kl = oracle(l, o)
            kind = w[0]
            if kind in ('run', 'runx'):
                sd = w[4] if kind == 'run' else ('-1' if w[5] == '-' else 'x')
                kind += ':daily' if sd == '-1' else ':weekly'
                g = parse_rle(o)
                checks += g[0] if g else 0
            key = '%s %s' % (kind, 'holds' if ok else 'not-applicable' if ok is None else 'fails:' + str(kl))
            st[key] = st.get(key, 0) + 1
        res.cov['outcomes'] = dict(sorted(st.items()))
        res.cov['schedule_checks_executed'] = checks
