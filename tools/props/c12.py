"""C12 metadata lookup tables: theorems Props.C12 + generated tables + stream `tab` (fld/msg/trait ops and
insert/find/clear histories on presorted_set and the FieldTrait specialisation)"""
import vlib, gen_facts

THEOREMS = ['C12_table_find', 'C12_table_miss', 'C12_utest_tables_sorted', 'C12_presorted_history', 'insert_ok']


def hx(b):
    return b.hex() if b else '-'


def gen(rng, d, thorough):
    lines = []
    fields = set(d['fields'])
    tags = range(0, 65536) if thorough else sorted(fields | {f + 1 for f in fields} | {f - 1 for f in fields if f} | {0, 65535} | {rng.randrange(65536) for _ in range(300)})
    for t in tags:
        lines.append('fld %d' % t)
    alpha = sorted(set(b for m in d['msgs'] for b in m))
    for m in d['msgs']:
        for c in {m, m + b'A', m[:-1] or b'0', bytes([m[0] + 1]) + m[1:], m.lower(), m.upper()}:
            if c and 0 not in c:
                lines.append('msg %s' % hx(c))
    for _ in range(200):
        lines.append('msg %s' % hx(bytes(rng.choice(alpha) for _ in range(rng.randrange(1, 4)))))
    for key, tr in d['traits']:
        tt = [t for t, _ in tr]
        cands = set(tt) | {t + 1 for t in tt} | {t - 1 for t in tt} | {0, 1, 65535, max(tt) + 1, max(tt) + 2} | {rng.randrange(0, max(tt) + 50) for _ in range(10)}
        if thorough:
            cands |= set(range(0, max(tt) + 300))
        for t in sorted(cands):
            if 0 <= t < 65536:
                lines.append('trait %s %d' % (hx(key), t))
    # insert / find / clear histories
    for h in range(40 if not thorough else 1500):
        kind = rng.choice('gp')
        res = rng.choice((1, 2, 4, 10, 100))
        lines.append('new %s %d' % (kind, res))
        pool = [rng.randrange(1, 60000) for _ in range(rng.randrange(1, 40))]
        for _ in range(rng.randrange(1, 120)):
            r = rng.random()
            k = rng.choice(pool) if rng.random() < 0.85 else rng.randrange(1, 65000)
            if r < 0.08:
                # range insert: ascending, unsorted, with adjacent / distant duplicates; into an empty, a cleared or a filled set
                m = rng.randrange(1, 7)
                ks = [rng.choice(pool) if rng.random() < 0.7 else rng.randrange(1, 65000) for _ in range(m)]
                sh = rng.random()
                if sh < 0.5:
                    ks.sort()
                if sh < 0.3 and len(ks) > 1:
                    j = rng.randrange(len(ks) - 1); ks[j + 1] = ks[j]      # ascending with an adjacent duplicate
                if rng.random() < 0.3:
                    lines.append('clr')
                lines.append('insr ' + ' '.join(map(str, ks)))
                lines.append('arr')
            elif r < 0.55:
                lines.append('ins %d' % k)
            elif r < 0.9:
                lines.append('fnd %d' % k)
            elif r < 0.93:
                lines.append('clr')
            else:
                lines.append('arr')
        lines.append('arr')
    return lines


def make_oracle(d):
    fields = set(d['fields'])
    msgs = set(d['msgs'])
    traits = {k: dict(tr) for k, tr in d['traits']}
    state = {'set': set()}
    def oracle(line, out):
        w = line.split()
        if w[0] == 'fld':
            return ((out.startswith('hit ') and 'reverse' not in out) if int(w[1]) in fields else out == 'miss', None)
        if w[0] == 'msg':
            return (out.startswith('hit ') if bytes.fromhex(w[1]) in msgs else out == 'miss', None)
        if w[0] == 'trait':
            tr = traits.get(bytes.fromhex(w[1]))
            if tr is None:
                return (None, None)
            t = int(w[2])
            return (out == ('has=1 pos=%d' % t if t in tr else 'has=0 pos=0'), None)   # 'pos' carries the tag of the entry returned
        if w[0] == 'new':
            state['set'] = set(); return (out == 'ok', None)
        if w[0] == 'insr':
            for k in map(int, w[1:]):
                if k in state['set']:
                    break                       # the range insert stops at the first refused element
                state['set'].add(k)
            return (out.split()[0] == 'sz=%d' % len(state['set']), None)
        if w[0] == 'ins':
            k = int(w[1]); new = k not in state['set']; state['set'].add(k)
            return (out.split()[0] == ('1' if new else '0') and out.split()[1] == 'sz=%d' % len(state['set']), None)
        if w[0] == 'fnd':
            return (out == ('1' if int(w[1]) in state['set'] else '0'), None)
        if w[0] == 'clr':
            state['set'] = set(); return (out == 'ok', None)
        if w[0] == 'arr':
            return (out == ' '.join(str(x) for x in sorted(state['set'])) + '.', None)
        return (None, None)
    return oracle


def run(res, replay=None):
    rng = vlib.rng_for('C12', res.seed)
    errs = gen_facts.generate(['itoa_table'])
    try:
        d = gen_facts.tables_utest()
    except gen_facts.FactError as e:
        res.violation(str(e), 'generated facts for C12 unavailable: ' + str(e)[:200], no_input=True)
        res.cov.update(evaluations=0, distinct_nontrivial=0)
        return
    if replay:
        lines = [l.strip() for l in open(replay) if l.strip() and not l.startswith('#')]
    else:
        lines = vlib.corpus_lines('C12') + gen(rng, d, res.tier == 'thorough')
    res.cov['exhaustive_tags'] = (res.tier == 'thorough' and not replay)
    res.assumptions += ['std::lower_bound / upper_bound modelled by their bisection; memcpy/memmove of the array modelled as list splice',
                        'the FieldTrait_Hash_Array lookup of the generated per-message trait sets is covered by the correspondence stream (all tags) and by the sortedness fact, not by a separate theorem',
                        'the iterator returned by insert after a reallocation points into the freed array (callers use only .second): known finding, not part of the map contract checked here',
                        'msgtype keys compared through an order-preserving integer code']
    res.cov['rule'] = ('field table: tags (quick: all defined tags and neighbours + random; thorough: all 0..65535) through find_be and the table, reverse name lookup; message table: every msgtype and near misses; '
                       'per-message trait sets: member tags, neighbours, beyond-the-end tags; presorted_set<long,Item> and the FieldTrait specialisation: random insert/find/clear histories with '
                       'reserve in {1,2,4,10,100}. distinct by line text within its history; every line is a lookup or an update')
    def compare(l, impl, model):
        w = l.split()
        if w[0] in ('fld', 'msg'):
            return impl.split()[0] == model
        if w[0] == 'trait':
            return impl.split()[0] == model.split()[0]
        return impl == model
    vlib.decide_stream(res, module='Fix8Model.Props.C12', theorems=THEOREMS, stream='tab', harness_name='tables',
                       lines=lines, oracle=make_oracle(d), nontrivial=lambda l: l if not l.startswith(('new', 'clr', 'arr')) else None,
                       compare=compare, harness_kw=dict(need_schema=True), stateful=True, extra_obligation_problems=errs)
