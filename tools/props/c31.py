"""C31 timer: theorems Props.C31 + stream `timer` (the real Timer<T> thread under a virtual clock with the interposed clock_nanosleep as
idle point, compared wake-up by wake-up with the Lean model; plus threaded scenarios on the real clock judged by the oracle only)"""
import vlib, gen_facts

THEOREMS = ['C31_not_before_due', 'C31_schedule_due', 'C31_runs_minimum', 'C31_due_order', 'C31_due_order_trace', 'C31_order_lag_witness', 'C31_repeat', 'C31_stops_after_false',
            'C31_rearm_exact', 'C31_clear', 'C31_sid_unique', 'C31_clear_empties', 'C31_zero_time_discarded', 'C31_tick_refines',
            'C31_tick_quiescent']
MS = 1000000
NCB = 32


# ------------------------------------------------------------------------------------------------
# generator

def gen_segment(rng, nops, thorough):
    """one deterministic segment: new ... end.  The generator tracks the virtual clock and the due times it created so that it can
    steer wake-ups to the boundaries (due-1ns, due, due+1ns) and create ties; it does not simulate the timer."""
    t0 = rng.choice([0, 1, 999999, 10 ** 9, 1700000000 * 10 ** 9, rng.randrange(0, 9 * 10 ** 17)])
    lines = ['new %d %d' % (rng.choice([1, 5, 10, 25]), t0)]
    now = t0
    dues = []          # (due, interval) guesses of pending due times (first runs and naive re-arms)
    style = rng.random()
    for _ in range(nops):
        c = rng.random()
        if c < 0.38:
            cb = rng.randrange(0, 6) if rng.random() < 0.6 else rng.randrange(0, NCB)
            if style < 0.2 and dues and rng.random() < 0.5:
                d = rng.choice(dues)[1]                                    # same delay again: ties
            else:
                d = rng.choice([1, 2, 5, 10, 200]) if rng.random() < 0.3 else rng.randrange(1, 201)
            rep = 1 if rng.random() < 0.55 else 0
            lines.append('sched %d %d %d' % (cb, d, rep))
            dues.append((now + d * MS, d))
        elif c < 0.75:
            k = rng.random()
            fut = sorted(x for x in dues if x[0] >= now)
            if k < 0.45 and fut:
                due, iv = fut[0] if rng.random() < 0.7 else rng.choice(fut)
                adv = due - now + rng.choice([-1, 0, 0, 1, rng.randrange(0, 3 * MS)])
                adv = max(adv, 0)
                dues.append((now + adv + iv * MS, iv))                     # where a re-arm would land if it ran now
            elif k < 0.55:
                adv = 0
            elif k < 0.8:
                adv = rng.randrange(0, 30 * MS)
            elif k < 0.95:
                adv = rng.randrange(0, 40) * MS
            else:
                adv = rng.randrange(0, 400 * MS)
            now += adv
            lines.append('tick %d' % adv)
        elif c < 0.82:
            cb = rng.randrange(0, 6) if rng.random() < 0.7 else rng.randrange(0, NCB)
            t = rng.choice(['inf', '0', str(now + rng.randrange(0, 300 * MS))] + [str(x[0] + rng.choice([0, 1])) for x in dues[-3:]])
            lines.append('stop %d %s' % (cb, t))
        elif c < 0.88:
            lines.append('clear')
            dues = []
        elif c < 0.96:
            fut = sorted(x for x in dues if x[0] >= now)
            adv = (fut[0][0] - now + rng.choice([0, 0, 1, rng.randrange(0, 20 * MS)])) if fut and rng.random() < 0.8 else rng.randrange(0, 30 * MS)
            now += adv
            lines.append('cclear %d' % adv)
            dues = []
        else:
            lines.append('sched %d %d %d' % (rng.randrange(0, NCB), rng.randrange(1, 201), rng.randrange(0, 2)))
    lines.append('tick %d' % (rng.randrange(0, 250) * MS))
    lines.append('tick %d' % (rng.randrange(0, 250) * MS))
    lines.append('end')
    return lines


def gen_clear_during_callback(rng):
    """directed: a repeating event, clear() from another thread while its callback executes, then enough wake-ups for a survivor to show"""
    t0 = rng.randrange(1, 10 ** 12)
    lines = ['new %d %d' % (rng.choice([1, 10]), t0)]
    n = rng.randrange(1, 4)
    ds = []
    for i in range(n):
        d = rng.randrange(1, 60)
        ds.append(d)
        lines.append('sched %d %d %d' % (rng.randrange(0, NCB), d, 1 if i == 0 or rng.random() < 0.6 else 0))
    lines.append('cclear %d' % (min(ds) * MS + rng.choice([0, 1, rng.randrange(0, 5 * MS)])))
    for _ in range(3):
        lines.append('tick %d' % (max(ds) * MS + rng.randrange(0, 10 * MS)))
    if rng.random() < 0.5:
        lines.append('sched %d %d 1' % (rng.randrange(0, NCB), rng.randrange(1, 30)))
        lines.append('tick %d' % (rng.randrange(20, 60) * MS))
    lines.append('end')
    return lines


def gen_malformed(rng, n):
    lines = []
    junk = ['', 'sched', 'sched 1 2', 'sched 1 2 3', 'sched 32 5 1', 'sched 1 4294967296 0', 'sched -1 5 1', 'sched 1 5 2', 'sched 1 5 1 1',
            'tick', 'tick -5', 'tick 10000000000001', 'tick 1e6', 'stop 1', 'stop 40 inf', 'stop 1 x', 'clear 1', 'cclear', 'cclear x',
            'new 1', 'new a b', 'end now', 'frobnicate', 'SCHED 1 5 1', 'tick 0x10', 'sched 1 0000000000000000005 1']
    live = False
    for _ in range(n):
        c = rng.random()
        if c < 0.12:
            lines.append('new 10 %d' % rng.randrange(0, 10 ** 12)); live = True
        elif c < 0.2:
            lines.append('end'); live = False
        elif c < 0.55:
            lines.append(rng.choice(junk))
        elif c < 0.7:
            lines.append('sched %d %d %d' % (rng.randrange(0, NCB), rng.choice([0, 0, 1, 4294967295, rng.randrange(0, 300)]), rng.randrange(0, 2)))   # zero and huge delays
        elif c < 0.9:
            lines.append('tick %d' % rng.choice([0, 1, MS, 10 ** 13, rng.randrange(0, 100 * MS)]))
        else:
            lines.append(rng.choice(['clear', 'cclear 0', 'stop 3 0', 'stop 3 inf']))
    lines.append('end')
    return [l for l in lines if l.strip()]


def gen_thr(rng):
    nev = rng.randrange(1, 7)
    cbs = rng.sample(range(NCB), nev)
    evs = []
    for cb in cbs:
        evs.append((cb, rng.randrange(0, 30), rng.randrange(1, 51), 1 if rng.random() < 0.6 else 0, rng.choice([999, 999, 0, 1, 2, 3]), rng.choice([0, 0, 0, 1, 3])))
    clr = []
    for _ in range(rng.choice([0, 1, 1, 2])):
        clr.append('t%d' % rng.randrange(1, 90))
    reps = [e for e in evs if e[3] == 1 and e[4] >= 2]
    if reps and rng.random() < 0.7:
        e = rng.choice(reps)
        clr.append('r%d.%d' % (e[0], rng.randrange(1, min(e[4], 3) + 1)))
    dur = rng.randrange(70, 130)
    s = 'thr g=%d dur=%d ev=%s' % (rng.choice([1, 1, 2, 5, 10]), dur, ','.join('%d:%d:%d:%d:%d:%d' % e for e in evs))
    if clr:
        s += ' clr=' + ','.join(clr)
    return s


def gen(rng, tier):
    thorough = tier == 'thorough'
    lines = []
    for _ in range(400 if thorough else 45):
        lines += gen_segment(rng, rng.choice([5, 12, 25, 60]) if not thorough else rng.choice([5, 12, 25, 60, 150]), thorough)
    for _ in range(150 if thorough else 25):
        lines += gen_clear_during_callback(rng)
    lines += gen_malformed(rng, 1500 if thorough else 250)
    for _ in range(250 if thorough else 30):
        lines.append(gen_thr(rng))
    return lines


# ------------------------------------------------------------------------------------------------
# comparison of the two outputs (ties: several events with the same due time may run in either order)

def parse_runs(txt):
    """'3@105:1 4@105:0/100/2' -> [(cb, t, r, due|None, nafter|None)]"""
    out = []
    for it in txt.split():
        if it == '-':
            continue
        head, *rest = it.split('/')
        cb, tr = head.split('@')
        t, r = tr.split(':')
        out.append((int(cb), int(t), int(r), int(rest[0]) if rest else None, int(rest[1]) if len(rest) > 1 else None))
    return out


def tie_groups(mruns):
    groups = []
    for x in mruns:
        if groups and groups[-1][0][3] == x[3]:
            groups[-1].append(x)
        else:
            groups.append([x])
    return groups


def compare(line, impl, model):
    w = line.split()
    if not w or w[0] == 'thr':
        return True
    try:
        if w[0] == 'tick' and impl.startswith('run ') and model.startswith('run '):
            ir, iq = impl[4:].split(' | ')
            mr, mq = model[4:].split(' | ')
            if iq != mq:
                return False
            iruns, mruns = parse_runs(ir), parse_runs(mr)
            if len(iruns) != len(mruns):
                return False
            pos = 0
            for g in tie_groups(mruns):
                if sorted(x[:3] for x in g) != sorted(x[:3] for x in iruns[pos:pos + len(g)]):
                    return False
                pos += len(g)
            return True
        if w[0] == 'cclear' and impl.startswith('crun ') and model.startswith('crun '):
            ir, ic, iq = impl[5:].split(' | ')
            mr, mn0, mq = model[5:].split(' | ')
            iruns, mruns = parse_runs(ir), parse_runs(mr)          # model items: (cb, t, r, due, requeued)
            n, during = int(ic.split()[1]), ic.split()[2]
            n0 = int(mn0.split('=')[1])
            if iq != mq or during != 'during=0':
                return False
            if not mruns:
                return not iruns and n == n0
            # the clear takes effect after k >= 1 of the iterations that run a callback: the implementation's runs are a prefix of the
            # model's (up to the order inside a tie group) and the count is n0 minus the runs among them that were not re-queued
            k = len(iruns)
            if k < 1 or k > len(mruns):
                return False
            pos, lo, hi = 0, 0, 0
            for g in tie_groups(mruns):
                part = iruns[pos:pos + len(g)]
                if not part:
                    break
                if len(part) == len(g):
                    if sorted(x[:3] for x in g) != sorted(x[:3] for x in part):
                        return False
                    dropped = sum(1 for x in g if not x[4])
                    lo += dropped; hi += dropped
                else:
                    # the clear fell inside this tie group: any sub-multiset of it; which members ran decides the count
                    for key in set(x[:3] for x in part):
                        flags = sorted(0 if x[4] else 1 for x in g if x[:3] == key)     # 1 = dropped
                        c = sum(1 for x in part if x[:3] == key)
                        if c > len(flags):
                            return False
                        lo += sum(flags[:c]); hi += sum(flags[len(flags) - c:])
                pos += len(part)
            return n0 - hi <= n <= n0 - lo
    except (ValueError, IndexError):
        return False
    return impl == model


# ------------------------------------------------------------------------------------------------
# the property, stated independently on the implementation's run log

class Oracle:
    """Tracks, from the script and the implementation's own output, which scheduled events are alive (scheduled since the last clear
    returned, not yet finished).  A logged callback run must be explained by one of them:
      (d) it exists (nothing scheduled before a clear runs after it; nothing runs that was never scheduled),
      (a) its due time is not after the logged time,
      (b) no other live event has a smaller due time,
      (c) afterwards it is due again at logged time + interval iff it repeats and the callback returned true, otherwise it is gone.
    Several live events may fit a run (same callback, same due time): every fitting choice is kept (a set of worlds)."""
    MAXW = 256

    def __init__(self):
        self.reset(0)
        self.live_timer = False
        self.stats = dict(runs=0, rearms=0, ties=0, clears=0, cclears=0, cclear_in_callback=0, thr=0, thr_runs=0, thr_clear_in_callback=0,
                          zero_delay=0, after_clear_checks=0)

    def reset(self, t0):
        self.now = t0
        self.worlds = [()]           # each world: sorted tuple of (cb, due, interval, rep)
        self.outside = False         # a zero-delay event was scheduled: outside the quantifier of the property from here on
        self.cleared_since_sched = False

    def explain(self, cb, t, r):
        new = set()
        why = None
        for wd in self.worlds:
            if not wd:
                why = why or 'no scheduled event is alive (never scheduled, finished, or scheduled before a clear)'
                continue
            m = min(x[1] for x in wd)
            cands = set(x for x in wd if x[0] == cb)
            if not cands:
                why = why or 'no live event with callback %d (never scheduled, finished, or scheduled before a clear)' % cb
            for x in cands:
                if x[1] > t:
                    why = 'callback %d ran at %d before its due time %d' % (cb, t, x[1])
                    continue
                if x[1] != m:
                    why = why or 'callback %d (due %d) ran while an event due at %d was pending' % (cb, x[1], m)
                    continue
                rest = list(wd)
                rest.remove(x)
                if r and x[3]:
                    rest.append((cb, t + x[2] * MS, x[2], x[3]))
                new.add(tuple(sorted(rest)))
        if not new:
            return why or 'unexplained run'
        if len(new) > self.MAXW:
            self.outside = True
        self.worlds = list(new)[:self.MAXW]
        return None

    def __call__(self, line, out):
        try:
            return self.judge(line, out)
        except (ValueError, IndexError, KeyError):
            return (False, None)          # output not in the protocol

    def judge(self, line, out):
        w = line.split()
        if not w:
            return (None, None)
        if w[0] == 'thr':
            return (False, None) if 'abort:' in out else self.threaded(line, out)
        if out.startswith('skipped') or 'abort:' in out:
            return (False, None)
        if out in ('bad-op', 'no-timer'):
            return (None, None)
        if w[0] == 'new':
            self.reset(int(w[2])); self.live_timer = True
            return (out == 'ok', None)
        if not self.live_timer:
            return (None, None)
        if w[0] == 'sched':
            cb, d, rep = int(w[1]), int(w[2]), w[3] == '1'
            if d == 0:
                self.outside = True; self.stats['zero_delay'] += 1
            else:
                self.worlds = [tuple(sorted(wd + ((cb, self.now + d * MS, d, rep),))) for wd in self.worlds]
            return (None, None)
        if w[0] in ('tick', 'cclear'):
            self.now += int(w[1])
            parts = out.split(' | ')
            runs = parse_runs(parts[0].split(' ', 1)[1])
            bad = None
            for (cb, t, r, _, _) in runs:
                self.stats['runs'] += 1
                self.stats['rearms'] += 1 if r else 0
                if t > self.now:
                    bad = bad or 'logged time %d is ahead of the clock %d' % (t, self.now)
                if self.cleared_since_sched:
                    self.stats['after_clear_checks'] += 1
                e = self.explain(cb, t, bool(r))
                if e and not bad:
                    bad = e
            if w[0] == 'cclear':
                self.stats['cclears'] += 1
                if runs:
                    self.stats['cclear_in_callback'] += 1
                self.worlds = [()]
                self.cleared_since_sched = True
            if self.outside:
                return (None, None)
            return (bad is None, None)
        if w[0] == 'clear':
            self.worlds = [()]
            self.stats['clears'] += 1
            self.cleared_since_sched = True
            return (None, None)
        if w[0] == 'end':
            self.live_timer = False
        return (None, None)

    # threaded scenarios: only what is sound for arbitrary thread delays (see NOTES.md)
    def threaded(self, line, out):
        if out == 'bad-op':
            return (None, None)
        if not out.startswith('thr'):
            return (False, None)
        spec = {}
        for a in line.split()[1:]:
            if a.startswith('ev='):
                for it in a[3:].split(','):
                    cb, at, d, rep, ntrue, hold = map(int, it.split(':'))
                    spec[cb] = dict(d=d, rep=rep, ntrue=ntrue)
        S, R, C = {}, {}, []
        order = []
        for it in out.split()[1:]:
            f = it[1:].split(':')
            if it[0] == 'S':
                S[int(f[0])] = (int(f[1]), int(f[2]))
            elif it[0] == 'R':
                R.setdefault(int(f[0]), []).append((int(f[1]), int(f[2]), int(f[3])))
                order.append((int(f[1]), int(f[0])))
            elif it[0] == 'C':
                C.append((int(f[0]), int(f[1]), int(f[2])))
        self.stats['thr'] += 1
        self.stats['thr_runs'] += len(order)
        if any(a.startswith('clr=') and ',r' in (',' + a[4:]) for a in line.split()):
            self.stats['thr_clear_in_callback'] += 1
        bad = []
        for cb, runs in R.items():
            if cb not in spec or cb not in S or S[cb][0] < 0:
                bad.append('callback %d ran but was never scheduled' % cb)
                continue
            B, A = S[cb]
            d = spec[cb]['d']
            if d == 0:
                return (None, None)
            for k, (E, X, r) in enumerate(runs, 1):
                if E < B + k * d * MS:                                   # (a)/(c): k-th run no earlier than schedule call + k intervals
                    bad.append('run %d of callback %d started %d ns after the schedule call, before %d x %d ms' % (k, cb, E - B, k, d))
                if k >= 3 and E < runs[k - 3][1] + d * MS:                 # (c): the sample of run k-1 is taken after run k-2 returned
                    bad.append('run %d of callback %d sooner than one interval after run %d ended' % (k, cb, k - 2))
                if k < len(runs) and (not r or not spec[cb]['rep']):     # (c): no run after false / of a one-shot
                    bad.append('callback %d ran again after %s' % (cb, 'returning false' if not r else 'its single run'))
            for (cB, cA, n) in C:                                        # (d)
                if A < cB:
                    late = [E for (E, X, r) in runs if E > cA]
                    if late:
                        bad.append('callback %d, scheduled before clear() was called (at %d), started %d ns after clear() had returned' % (cb, cB, late[0] - cA))
        # (b) first runs in due order when the due times are certainly ordered and no clear interferes
        for c1 in S:
            for c2 in S:
                if c1 == c2 or c2 not in R or S[c1][0] < 0 or S[c2][0] < 0:
                    continue
                hi1 = S[c1][1] + spec[c1]['d'] * MS
                lo2 = S[c2][0] + spec[c2]['d'] * MS
                E2 = R[c2][0][0]
                if hi1 < lo2 and not any(cA >= S[c1][0] and cB <= E2 for (cB, cA, n) in C):
                    if c1 not in R or R[c1][0][0] > E2:
                        bad.append('callback %d (due by %d) had not run when callback %d (due from %d) ran at %d' % (c1, hi1, c2, lo2, E2))
        return (not bad, None) if not bad else (False, None)


def run(res, replay=None):
    rng = vlib.rng_for('C31', res.seed)
    errs = gen_facts.generate(['timer_consts'])
    if replay:
        lines = [l.strip() for l in open(replay) if l.strip() and not l.startswith('#')]
    else:
        lines = vlib.corpus_lines('C31') + gen(rng, res.tier)
    res.assumptions += [
        'atomicity: the push of schedule() (its clock read precedes the lock: modelled by an arbitrary lag), clear() and one iteration of the loop of Timer::operator() (lock, top, test, pop, callback, re-queue, unlock) are atomic with respect to each other because '
        'all three hold _spin_lock throughout; this is the modelled assumption, and it is exercised on the real code by cclear (clear() from another thread while a callback executes) and by the threaded scenarios',
        'the clock never goes backwards and tick values do not overflow (Nat in the model)',
        'std::priority_queue: top() is some element of minimal _t; the order among equal _t is not modelled (any Picker) and the comparison accepts either order',
        'the time of a run is the `now` the loop sampled before invoking the callback (the re-arm is now + interval), as in DESIGN.md section 7',
        'zero-delay events (outside the 1-200 ms quantifier) are discarded by the loop without running; the oracle does not judge segments that use them, the model comparison does',
        'Tickval::million is extracted from include/fix8/tickval.hpp into Gen/TimerConsts.lean on every run']
    res.cov['rule'] = ('deterministic segments (new .. end) of 5-60 (thorough: -150) operations: schedule (delays 1-200 ms, 32 callbacks, repeat flags), callback results switched by per-callback stop times, '
                       'wake-ups steered to due-1ns / due / due+1ns and to random advances, ties, clear, clear() from a second thread during the first callback of a wake-up, directed clear-during-callback '
                       'segments, a malformed stream (bad arity / ranges, zero and 2^32-1 ms delays, operations without a timer); threaded scenarios on the real clock (1-6 events, delays 1-50 ms, callback bodies 0-3 ms, '
                       'timed clears and clears forced into a running callback). distinct by (position, line); non-trivial = wake-ups, clears, threaded scenarios')
    orc = Oracle()
    cnt = [0]

    def nontrivial(l):
        cnt[0] += 1
        return (cnt[0], l) if l.startswith(('tick', 'clear', 'cclear', 'thr')) else None

    r = vlib.decide_stream(res, module='Fix8Model.Props.C31', theorems=THEOREMS, stream='timer', harness_name='timer',
                           lines=lines, oracle=orc, nontrivial=nontrivial, compare=compare,
                           harness_kw=dict(need_lib=True, extra_flags=['-ldl']), stateful=True,
                           segment_start=lambda x: x.startswith(('new', 'thr')), extra_obligation_problems=errs)
    if r:
        res.cov['observed'] = orc.stats
        ties = 0
        for l, m in zip(r['lines'], r['model'] or []):
            if l.startswith('tick') and m.startswith('run '):
                ties += sum(1 for g in tie_groups(parse_runs(m[4:].split(' | ')[0])) if len(g) > 1)
        res.cov['observed']['ties'] = ties
