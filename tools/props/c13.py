"""C13 schema compiler output implements the schema: theorems Props.C13 about the model of the metadata pipeline + translation validation
per generated schema (stream `f8c`): fresh f8c -> g++ -> tables read back through F8MetaCntx by the generic dumper, compared with `compile s`
of the Lean driver and, independently, with the schema itself; then messages of every type through the generated codec."""
import glob, os
import vlib, gen_facts, f8cfacts, f8ctv

LEVEL = 'translation_validation'
THEOREMS = ['C13_tables_sorted', 'C13_message_rows', 'C13_group_rows', 'C13_fields_present', 'C13_domains_sorted', 'C13_nesting_preserved',
            'C13_expansion_plain', 'C13_expansion_optional', 'C13_expansion_component', 'C13_finding_depth3', 'C13_finding_depth3_in_group', 'C13_fixed_component_flags']
# one count field reused by several messages: the valid families of C14 and its equal-key families (order / flag / component only)
ALL_REUSE = f8ctv.MULTI_ALL
STOCK = ['FIXT11.xml', 'FIX40.xml', 'FIX41.xml', 'FIX42.xml', 'FIX42PERF.xml', 'FIX42UTEST.xml', 'FIX43.xml', 'FIX44.xml']


def gen(rng, thorough):
    cases = []
    add = lambda S, valid=True: cases.append(dict(S=S, valid=valid, rt=[]))
    if not thorough:
        add(f8ctv.fam_types(rng, lite=True))
        add(f8ctv.fam_structured(rng))
        add(f8ctv.fam_random(rng))
        add(f8ctv.fam_component_twice(rng))
        add(f8ctv.fam_reuse_multi(rng, ALL_REUSE))
        add(f8ctv.fam_malformed(rng), False)
        return cases
    for _ in range(2):
        add(f8ctv.fam_types(rng))
    for d in (0, 1, 2, 3, 4) * 3:
        add(f8ctv.fam_groups(rng, d))
    for n in (0, 1, 2, 3) * 3:
        add(f8ctv.fam_components(rng, n))
    for _ in range(4):
        add(f8ctv.fam_structured(rng))
    for _ in range(4):
        add(f8ctv.fam_component_twice(rng))
    for _ in range(24):
        add(f8ctv.fam_random(rng))
    for _ in range(5):
        add(f8ctv.fam_reuse_multi(rng, ALL_REUSE))
    for _ in range(24):
        add(f8ctv.fam_malformed(rng), False)
    for name in STOCK:
        p = os.path.join(vlib.REPO, 'schema', name)
        if os.path.exists(p):
            S = f8ctv.load_stock(p)
            cases.append(dict(S=S, valid=True, rt=[], xml=open(p, encoding='latin1').read()))      # f8c gets the file as it is
    return cases


def run(res, replay=None):
    rng = vlib.rng_for('C13', res.seed)
    errs = gen_facts.generate(['f8c'])
    if errs:
        res.violation('\n'.join(errs), 'generated facts for the f8c model unavailable: ' + errs[0][:200], no_input=True)
        res.cov.update(evaluations=0, distinct_nontrivial=0)
        return
    thorough = res.tier == 'thorough'
    if replay:
        cases = f8ctv.parse_replay(replay)
    else:
        cases = []
        for p in sorted(glob.glob(os.path.join(vlib.ROOT, 'corpus', 'C13', '*.txt'))):
            cases += f8ctv.parse_replay(p)
        cases += gen(rng, thorough)
    res.assumptions += ['the XML reader of f8c, its C++ text emission and g++ are not modelled: they are validated for each generated schema (that is the translation-validation level); the theorems are about the modelled metadata pipeline',
                        'attributes the generator always writes (name, required, number, type, msgtype, msgcat, enum) are taken as present; duplicate field numbers are outside the modelled domain',
                        'FieldType numbering, the type-name map, trait bit numbers, special tags and rothash constants are extracted from /repo into Gen/F8cFacts.lean on every run',
                        'generated code compiled with g++ -O0 + ASan/UBSan (no debug info) through a precompiled header; dumper and runtime library at -O1 -g with the sanitizers',
                        'UBSan vptr reports inside message.hpp/message.cpp are suppressed (has_group_count casts every count field to Field<int,0>)',
                        'fields of type LENGTH / DATA / XMLDATA are compiled and their metadata compared, but not populated in the round-trip messages (Length/data pairing is property C06)',
                        'schemas hosted on a FIXT transport (FIX50*.xml + FIXT11.xml, option -x) are not covered: the two-document merge of precompfixt is not modelled']
    res.cov['rule'] = ('schemas from structured families (every field type x {no domain, set, range}; groups nested 0..4 with shared definitions; components nested 0..3 inside messages and groups, one component referenced twice by one message (sibling groups, two wrappers), '
                       'required/optional at every level; one count field reused with identical / different / structurally close definitions), random schemas (tags up to 65535), malformed schemas '
                       '(unknown field / group / component, duplicate msgtype or member, unknown type, low version, lower-case required) and, in the thorough tier, the stock schemas of /repo/schema without FIXT. '
                       'Each schema: fresh f8c, g++, every table read back through F8MetaCntx; compared item by item with the Lean model and with the schema (independent oracle); per message type a full and a random-subset '
                       'message built through the generated factories, encoded, decoded, re-encoded. distinct = distinct schema text; non-trivial = at least one message')
    f8ctv.run_tv(res, module='Fix8Model.Props.C13', theorems=THEOREMS, cases=cases, per_msg=2)
