"""C15 socket reader framing: theorems Props.C15 + stream `framer` (the real FIXReader on a loopback TCP connection, the
harness owns the peer end and writes the scripted byte stream in scripted chunks; ASan+UBSan)"""
import re
import vlib, gen_facts

THEOREMS = ['C15_current_wf', 'C15_current_flags', 'C15_chunking_any', 'C15_read_chunking', 'C15_chunking', 'C15_chunking_then',
            'C15_handed_on_is_prefix', 'C15_terminates', 'C15_passes_only', 'C15_reject', 'C15_reject_run',
            'C15_msgbuf_inbounds', 'C15_tagval_inbounds', 'C15_bounded_loop_safe', 'C15_bounded_extract_safe', 'C15_reject_repaired',
            'C15_finding_first_char', 'C15_finding_length_wraps', 'C15_finding_shifted', 'C15_finding_tag_overflow',
            'C15_finding_val_overflow', 'C15_repaired_refuses', 'C15_bounded_only']

SOH = b'\x01'
# what the property text fixes (NOT taken from the model): FIX.4.2 session, 8192-byte message limit, 7-byte trailer
BS = b'FIX.4.2'
MAXMSG = 8192
CHK = 7
BG = 2 + len(BS) + 1 + 3
LIMIT = MAXMSG - BG - CHK          # largest BodyLength
PRE = b'8=' + BS + SOH + b'9='
READAHEAD = 2 * MAXMSG


# ------------------------------------------------------------------------------------------------
# generator

def trailer(rng):
    return b'10=%03d' % rng.randrange(256) + SOH


def body_of(rng, n):
    """n body bytes: FIX-looking fields, padded; sometimes arbitrary bytes (SOH, '=', NUL, high bytes, "8=FIX" look-alikes)"""
    c = rng.random()
    if c < 0.55:
        b = b'35=' + rng.choice([b'0', b'D', b'8', b'A', b'1']) + SOH + b'49=SND' + SOH + b'56=TGT' + SOH + b'34=%d' % rng.randrange(1, 100000) + SOH
        if len(b) + 4 <= n:
            b += b'58=' + bytes(rng.choice(b'abcdefghij XYZ0123456789') for _ in range(n - len(b) - 4)) + SOH
        return (b + b'x' * n)[:n]
    if c < 0.75:
        return bytes(rng.randrange(256) for _ in range(n))
    if c < 0.9:
        unit = rng.choice([PRE + b'5' + SOH, b'8=FIX.4.2', SOH + b'10=000' + SOH, b'\x00\x01=9', b'9=12' + SOH])
        return (unit * (n // len(unit) + 1))[:n]
    return bytes([rng.choice([1, 61, 48, 57, 0, 255])]) * n


def len_text(rng, n):
    """decimal BodyLength text; sometimes with leading zeros (still at most nine digits)"""
    t = b'%d' % n
    if rng.random() < 0.15:
        t = b'0' * rng.randrange(1, 10 - len(t)) + t
    return t


def frame(rng, n=None):
    if n is None:
        c = rng.random()
        if c < 0.5:
            n = rng.randrange(1, 120)
        elif c < 0.8:
            n = rng.randrange(120, 1200)
        elif c < 0.93:
            n = rng.choice([1, 2, 9, 10, 99, 100, 999, 1000, LIMIT - 1, LIMIT])
        else:
            n = rng.randrange(1200, LIMIT + 1)
    return PRE + len_text(rng, n) + SOH + body_of(rng, n) + trailer(rng)


def chunking(rng, stream, cuts_of_interest):
    """a chunk spec understood by harness and driver"""
    n = len(stream)
    c = rng.random()
    if c < 0.16 or n == 0:
        return 'a'
    if c < 0.30 and n <= 1500:
        return '1*'
    if c < 0.45:
        k = rng.choice([2, 3, 5, 7, 12, 13, 14, 20, 64, 255, 1000, 4096])
        while n // k > 1500:         # at most ~1500 hand-overs between writer and reader per case
            k *= 4
        return '%d*' % k
    if c < 0.75 and cuts_of_interest:
        # straddle message / header boundaries: cut a few bytes around them
        pts = set()
        for p in cuts_of_interest:
            if rng.random() < 0.7:
                pts.add(max(1, min(n - 1, p + rng.randrange(-14, 15))))
        pts = sorted(x for x in pts if 0 < x < n)
        if not pts:
            return 'a'
        sizes, last = [], 0
        for p in pts:
            sizes.append(p - last)
            last = p
        return ','.join(map(str, sizes))
    k = rng.randrange(1, 40)
    pts = sorted(set(rng.randrange(1, n) for _ in range(k))) if n > 1 else []
    sizes, last = [], 0
    for p in pts:
        sizes.append(p - last)
        last = p
    if len(','.join(map(str, sizes))) > 1500 or not sizes:
        return '%d*' % rng.randrange(1, 50)
    return ','.join(map(str, sizes))


def boundaries(frames):
    out, off = [], 0
    for f in frames:
        out += [off + BG, off + f.index(SOH, BG) + 1]
        off += len(f)
        out.append(off)
    return out


NEAR_WRAP = [4294967275, 4294967276, 4294967277, 4294967285, 4294967290, 4294967295, 4294967296, 4294967297, 4294967301,
             4294967296 + LIMIT, 4294967296 + LIMIT + 1, 2 * 4294967296 + 7, 2147483647, 2147483648, 3000000000,
             10 * 4294967296 - 3, 99999999999999999999]
SIZES = [0, LIMIT, LIMIT + 1, LIMIT + 2, 8180, 8192, 8193, 9000, 9999, 10000, 65536, 99999, 1000000, 999999999, 1000000000]


def bad_preambles(rng, thorough):
    """(kind, bytes that take the place of a frame's preamble up to and including the SOH that ends BodyLength)"""
    out = []
    for bs in (b'FIX.4.4', b'FIX.4.1', b'FIXT.1.1', b'FIX.4.', b'fix.4.2', b'FIX.4.2 ', b'FIX.4.22', b'', b'FIX=4.2'):
        out.append(('beginstring', b'8=' + bs + SOH + b'9=%d' % rng.randrange(1, 300) + SOH))
    for v in SIZES + ([rng.randrange(LIMIT + 1, 10 ** 9) for _ in range(4)]):
        out.append(('size', PRE + b'%d' % v + SOH))
    for v in NEAR_WRAP:
        out.append(('wrap', PRE + b'%d' % v + SOH))
    for z in (b'0', b'00', b'000000000', b'0000000000', b'00000000000000000'):
        out.append(('zero', PRE + z + SOH))
    out.append(('leadzero', PRE + b'0000000000005' + SOH))             # numeric, 13 digits, value 5
    for t in (b'x5', b':5', b';9', b'/5', b'-5', b'-4294967291', b'+5', b' 5', b'\x005', b'\xff5', b'\x805', b'a', b':', b'A12', b'=5'):
        out.append(('firstchar', PRE + t + SOH))
    for t in (b'1x5', b'12a', b'5:', b'7 ', b'1-2', b'12\x00', b'9=5', b'1\xff', b'12.0', b'1e3'):
        out.append(('nondigit-inside', PRE + t + SOH))
    for t in (b'12', b'5', b'123456'):
        out.append(('missing-soh', PRE + t + rng.choice([b'|', b'\x02', b'35=0', b' ', b'\n'])))
    out.append(('empty-length', PRE + SOH))
    for p in (b'80=' + BS + SOH + b'9=5' + SOH, b'8=' + BS + b'\x00' + SOH + b'9=5' + SOH, b'8=' + BS + SOH + b'90=5' + SOH,
              b'81=' + BS + SOH + b'9=12' + SOH, b'8=' + BS + SOH + b'99=7' + SOH, b'8=' + BS + b'\x00' + SOH + b'9=' + SOH):
        out.append(('shifted', p))
    for p in (b'9=' + BS + SOH + b'9=70' + SOH, b'=' + BS + SOH + b'9=70' + SOH, b'8' + BS + SOH + b'9=70' + SOH, b'88' + BS[1:] + SOH + b'9=70' + SOH,
              b'8=' + BS + SOH + b'8=70' + SOH, b'8=' + BS + SOH + b'10=7' + SOH, b'8=' + BS + SOH + SOH + b'9=7' + SOH, b'8=' + BS + b'9=70' + SOH + SOH,
              b'8=' + BS + SOH + b'35=0' + SOH, b'\x00' * 14 + SOH, b'x=' + BS + SOH + b'9=5' + SOH, b'8:' + BS + SOH + b'9=5' + SOH):
        out.append(('firstfield', p))
    # long digit runs: tag[32] / val[2048] overflow classes and their neighbourhood (every abort costs a process restart:
    # the quick tier keeps three of them besides the corpus witnesses)
    for n in (17, 18, 19, 20, 31, 32, 40) + ((33, 100, 2000) if thorough else ()):
        out.append(('digits-from-start', b'1' * n + SOH))
    for n in (10, 18, 19, 25, 31, 32, 33, 100, 2034, 2046, 2047, 2048) + ((2049, 3000) if thorough else ()):
        out.append(('long-length', PRE + bytes(rng.choice(b'0123456789') for _ in range(n)) + SOH))
    for n in (19, 30, 2100):
        out.append(('long-tag9', b'8=' + BS + SOH + b'9' * n + b'=5' + SOH))
    if thorough:
        out.append(('digits-from-start', b'8' * 9000))
        out.append(('long-length', PRE + b'7' * 9000))
        out.append(('long-value8', b'8=' + b'A' * 11 + b'1' * 2100 + SOH + b'9=5' + SOH))
    if thorough:
        for v in range(4294967296 - 40, 4294967296 + 12):
            out.append(('wrap', PRE + b'%d' % v + SOH))
        for c in range(256):
            out.append(('firstchar', PRE + bytes([c]) + b'7' + SOH))
            out.append(('firstchar', PRE + bytes([c]) + SOH))
        for v in range(LIMIT - 3, LIMIT + 4):
            out.append(('size', PRE + b'%d' % v + SOH))
    return out


def gen(rng, n_valid, n_bad_rounds, thorough):
    lines, meta = [], []

    def add(mode, stream, chunks, kind):
        lines.append('%s %s %s' % (mode, stream.hex() or '-', chunks))
        meta.append(kind)
    # valid streams
    for i in range(n_valid):
        k = rng.choice([1, 1, 2, 2, 3, 4, 6]) if rng.random() < 0.9 else rng.randrange(7, 20)
        fr = [frame(rng) if rng.random() < 0.85 else frame(rng, rng.choice([1, 5, 20])) for _ in range(k)]
        s = b''.join(fr)
        if len(s) > 30000:
            fr = fr[:2]
            s = b''.join(fr)
        mode = 'x' if rng.random() < 0.2 else 'r'
        add(mode, s, chunking(rng, s, boundaries(fr)), 'valid')
        if rng.random() < 0.3:       # the same stream, another chunking
            add(mode, s, chunking(rng, s, boundaries(fr)), 'valid')
    # every chunk size 1..BG+3 on one stream, every 2-chunk split of a short two-frame stream
    fr = [frame(rng, 9), frame(rng, 30)]
    s = b''.join(fr)
    for k in range(1, BG + 4):
        add('r', s, '%d*' % k, 'valid')
    cuts = range(1, len(s)) if thorough else sorted(set(rng.randrange(1, len(s)) for _ in range(12)) | {BG - 1, BG, BG + 1, len(fr[0]) - 1, len(fr[0]), len(fr[0]) + 1})
    for c in cuts:
        add('r', s, '%d' % c, 'valid')
    # truncated streams: valid frames, then a proper prefix of a valid frame
    for i in range(6 if not thorough else 60):
        fr = [frame(rng, rng.randrange(1, 200)) for _ in range(rng.randrange(0, 3))]
        last = frame(rng, rng.randrange(1, 200))
        cut = rng.choice([rng.randrange(0, len(last)), rng.randrange(0, BG + 3), len(last) - 1, len(last) - CHK])
        s = b''.join(fr) + last[:max(0, cut)]
        add('r' if rng.random() < 0.8 else 'x', s, chunking(rng, s, boundaries(fr)), 'truncated')
    # malformed
    for rnd in range(n_bad_rounds):
        for kind, pre in bad_preambles(rng, thorough and rnd == 0):
            if rnd > 0 and rng.random() < 0.5:
                continue
            good = [frame(rng, rng.randrange(1, 120)) for _ in range(rng.choice([0, 0, 1, 2]))]
            follow = rng.choice([0, 5, 12, 60, 300])
            if kind in ('wrap', 'size') and rng.random() < 0.5:
                follow = rng.choice([8200, 9000, 20000])       # more than msg_buf holds, should the length be accepted
            after = body_of(rng, follow) + (trailer(rng) if follow else b'')
            if rng.random() < 0.3:
                after += frame(rng, rng.randrange(1, 50))
            s = b''.join(good) + pre + after
            cuts = boundaries(good) + [len(b''.join(good)) + x for x in (BG - 1, BG, len(pre))]
            add('x' if rng.random() < 0.12 else 'r', s, chunking(rng, s, cuts), kind)
    # garbage between / before frames
    for i in range(8 if not thorough else 80):
        good = [frame(rng, rng.randrange(1, 100)) for _ in range(rng.randrange(0, 3))]
        g = rng.choice([bytes(rng.randrange(256) for _ in range(rng.randrange(1, 60))), b'\r\n', b'\x00', SOH, b'10=123' + SOH, b' ', b'8=FIX', b'garbage' * 5])
        s = b''.join(good) + g + frame(rng, rng.randrange(1, 100))
        add('r', s, chunking(rng, s, boundaries(good)), 'garbage')
    add('r', b'', 'a', 'empty')
    return lines, meta


# ------------------------------------------------------------------------------------------------
# independent oracle: the property, stated on the byte stream and on what the implementation reported

def dec(ds):
    """value of a digit string (anything of more than 30 significant digits is just "huge")"""
    t = ds.lstrip(b'0')
    return 10 ** 30 if len(t) > 30 else int(t or b'0')


def split_valid(stream):
    """maximal prefix of complete valid frames (spec: canonical preamble, decimal BodyLength 1..LIMIT = body byte count, 7-byte trailer).
    returns (frames, offset of the first byte that is not part of one, lenient); lenient = the next frame would be valid but writes its
    BodyLength with more than nine digits (leading zeros): no encoder does, the property is not read as demanding either outcome"""
    frames, off = [], 0
    while True:
        m = re.compile(rb'8=FIX\.4\.2\x019=([0-9]+)\x01', re.S).match(stream, off)
        if not m:
            break
        v = dec(m.group(1))
        if not (1 <= v <= LIMIT):
            break
        if len(m.group(1)) > 9:
            return frames, off, True
        end = m.end() + v + CHK
        if end > len(stream):
            break
        frames.append(stream[off:end])
        off = end
    return frames, off, False


def classify_rest(rest):
    """what follows the valid frames: 'eof' | 'truncated' (a proper prefix of some valid frame) | 'corrupt'; and the header extent:
    the number of bytes a reader may need to look at before it can tell (first _bg_sz bytes, the digits after them, one more byte)"""
    if not rest:
        return 'eof', 0
    run = 0
    while BG + run < len(rest) and 48 <= rest[BG + run] <= 57:
        run += 1
    extent = min(len(rest), BG + run + 1)
    # proper prefix of a valid frame?
    if len(rest) <= len(PRE):
        if PRE.startswith(rest):
            return 'truncated', extent
        return 'corrupt', extent
    if not rest.startswith(PRE):
        return 'corrupt', extent
    m = re.compile(rb'([0-9]*)', re.S).match(rest, len(PRE))
    ds = m.group(1)
    if m.end() == len(rest):                      # ran out inside the digits
        if ds == b'' or dec(ds) <= LIMIT:
            return 'truncated', extent
        return 'corrupt', extent
    if rest[m.end()] != 1 or ds == b'':
        return 'corrupt', extent
    v = dec(ds)
    if 1 <= v <= LIMIT:
        return 'truncated', extent               # complete valid preamble, body/trailer incomplete (else split_valid had taken it)
    return 'corrupt', extent


def known_class(rest):
    """the known-finding class the remainder belongs to, decided on the bytes alone"""
    if rest.startswith(PRE) and len(rest) > len(PRE):
        m = re.compile(rb'([0-9]*)\x01', re.S).match(rest, len(PRE) + 1)
        c = rest[len(PRE)]
        if m and not (48 <= c <= 57) and c != 1:
            return 'first-length-char'
        m = re.compile(rb'([0-9]+)\x01', re.S).match(rest, len(PRE))
        if m and dec(m.group(1)) >= 2 ** 32:
            return 'length-wraps'
    for pat in (rb'8[0-9]=FIX\.4\.2\x019=[0-9]*\x01', rb'8=FIX\.4\.2\x00\x019=[0-9]*\x01', rb'8=FIX\.4\.2\x019[0-9]=[0-9]*\x01'):
        if re.compile(pat, re.S).match(rest):
            return 'shifted-preamble'
    return None


def overflow_eligible(rest):
    """header of 32 bytes or more: the first _bg_sz bytes followed by at least 32 - _bg_sz - 1 digits"""
    run = 0
    while BG + run < len(rest) and 48 <= rest[BG + run] <= 57:
        run += 1
    return len(rest) >= BG and BG + run + 1 >= 32


def parse_out(out):
    m = re.fullmatch(r'frames=(\d+)(?::([0-9a-f,]+))? st=(\S+) used=(\d+)', out)
    if not m:
        return None
    fr = [bytes.fromhex(h) for h in m.group(2).split(',')] if m.group(2) else []
    if len(fr) != int(m.group(1)):
        return None
    return fr, m.group(3), int(m.group(4))


def oracle(line, out):
    w = line.split()
    if len(w) != 3:
        return (None, None)
    mode, stream = w[0], (bytes.fromhex(w[1]) if w[1] != '-' else b'')
    valid, off, lenient = split_valid(stream)
    rest = stream[off:]
    kind, extent = classify_rest(rest)
    if out.startswith('abort'):
        if 'stack-buffer-overflow' in out and kind == 'corrupt':
            if overflow_eligible(rest):
                return (False, 'header-overflow')
            if known_class(rest):
                # the corrupt preamble is one the reader is known to accept; what it then takes for the next header is arbitrary
                # (the abort hides the frames handed on before it)
                return (False, known_class(rest))
        return (False, None)
    p = parse_out(out)
    if p is None:
        return (False, None)
    frames, st, used = p
    klass = known_class(rest) if kind == 'corrupt' else None
    is_err = st.startswith('throw:') or st == 'ret=-1:terminated'
    eof_err = st in ('throw:PeerResetConnection', 'ret=-1:terminated')
    # clause 1: the valid frames come out first, byte-identical, in order - whatever the chunking
    if frames[:len(valid)] != valid:
        return (False, None)
    if lenient:
        return (None, None)
    if kind in ('eof', 'truncated'):
        # nothing else is handed on; the reader ends at the end of the stream
        ok = frames == valid and eof_err and used == len(stream)
        return (ok, None)
    # clause 2: corrupt preamble - nothing more is handed on, the reader stops with an error, and it stops AT the preamble: it does not
    # go on taking the peer's bytes (READAHEAD leaves room for a reader that buffers: the oracle must not depend on the unbuffered design),
    # and the error is not "end of stream" while the stream goes on after the header
    ok = (frames == valid and is_err and used <= off + extent + READAHEAD
          and not (st == 'throw:PeerResetConnection' and len(stream) > off + extent))
    return (ok, klass)


# ------------------------------------------------------------------------------------------------

STATS = dict(recv=0, partial=0)


def canon_impl(line, out):
    m = re.search(r' \| recv=(\d+) partial=(\d+)$', out)
    if m:
        STATS['recv'] += int(m.group(1))
        STATS['partial'] += int(m.group(2))
        out = out[:m.start()]
    return out


def compare(line, impl, model):
    if model.startswith('oob:'):
        return impl.startswith('abort:asan:stack-buffer-overflow')
    return impl == model


def run(res, replay=None):
    rng = vlib.rng_for('C15', res.seed)
    errs = gen_facts.generate(['reader'])
    thorough = res.tier == 'thorough'
    meta = None
    if replay:
        lines = [l.strip() for l in open(replay) if l.strip() and not l.startswith('#')]
    else:
        glines, meta = gen(rng, 70 if not thorough else 400, 1 if not thorough else 3, thorough)
        corpus = vlib.corpus_lines('C15')
        lines = corpus + glines
        meta = ['corpus'] * len(corpus) + meta
    res.assumptions += ['session BeginString FIX.4.2 (the FIX42UTEST context the harness links); FIXT.1.1 differs only in _bg_sz, which the theorems carry as a parameter',
                        'the socket is modelled as a list of chunks (what successive recv calls find); EOF = end of list; EAGAIN (dead code with this Poco, receiveBytes throws instead) = an empty chunk that is skipped; Poco::Net and the kernel TCP stack are exercised, not modelled',
                        'the unbuffered sockRead is modelled (FIX8_EXPERIMENTAL_BUFFERED_SOCKET_READ is off in this build); the coroutine and pipeline process models share read() and differ only in how the frame is handed on',
                        'r-mode calls the private FIXReader::read through a member pointer obtained by explicit template instantiation and re-states the 6-line pm_thread loop so that the exception class is visible; x-mode calls the real FIXReader::execute',
                        'out-of-range stores into tag[]/val[] in the real code are observed through ASan (stack-buffer-overflow); constants, buffer sizes and the form of the two guards are extracted from the source on every run (Gen/Reader.lean)',
                        'the checksum field and the body are not validated by the reader (that is Session::process / C07); a frame is "valid" here as in the property: BeginString, BodyLength = body byte count within the limit, 7-byte trailer']
    res.cov['rule'] = ('valid streams of 1..19 frames (bodies 1..8172 bytes: FIX-like, random bytes, preamble look-alikes, constant SOH/=/NUL/0xff; BodyLength text with and without leading zeros) x chunkings '
                       '(all at once, 1 byte, fixed k, random cuts, cuts straddling frame/header boundaries, every chunk size 1.._bg_sz+3, single cuts); truncated streams; malformed: wrong BeginString, BodyLength 0 / oversized / '
                       'near 2^32 / wrapping / non-digit first character (all 256 in thorough) / non-digit inside / missing SOH / empty, shifted tags, NUL after BeginString, malformed first field, digit runs 17..9000 (tag and val overflow '
                       'neighbourhood), garbage before and between frames; each followed by 0..20000 further bytes. distinct by line; non-trivial = at least one frame or a non-empty remainder')
    r = vlib.decide_stream(res, module='Fix8Model.Props.C15', theorems=THEOREMS, stream='framer', harness_name='framer',
                           lines=lines, oracle=oracle, nontrivial=lambda l: l if l.split()[1] != '-' else None,
                           harness_kw=dict(need_schema=True, extra_flags=['-ldl']), compare=compare, canon_impl=canon_impl,
                           extra_obligation_problems=errs)
    if thorough and r and not replay:
        # self-mutant of the harness (a recorded frame loses its last byte): the oracle must notice
        try:
            exe = vlib.build_harness('framer', need_schema=True, extra_flags=['-ldl', '-DVERIF_SELFTEST'])
            sub = [l for l, k in zip(lines, meta) if k == 'valid'][:120]
            impl, _ = vlib.run_harness(exe, sub)
            caught = sum(1 for l, o in zip(sub, impl) if oracle(l, canon_impl(l, o))[0] is False)
            res.cov['selftest_caught'] = caught
            if not caught:
                res.violation('self-mutant of harness/framer.cpp (-DVERIF_SELFTEST) was not noticed by the oracle', 'checking machinery suspect: harness self-mutant not detected', no_input=True)
        except vlib.BuildError as e:
            res.violation(str(e)[-1500:], 'harness self-mutant does not build', no_input=True)
    if r:
        kinds = {}
        for k in (meta or []):
            kinds[k] = kinds.get(k, 0) + 1
        frames_out = sum(int(m.group(1)) for m in (re.match(r'frames=(\d+)', o) for o in r['impl']) if m)
        chunk_modes = {}
        for l in lines:
            c = l.split()[2] if len(l.split()) == 3 else '?'
            key = 'all-at-once' if c == 'a' else '1-byte' if c == '1*' else 'fixed-size' if c.endswith('*') and ',' not in c else 'scripted-cuts'
            chunk_modes[key] = chunk_modes.get(key, 0) + 1
        statuses = {}
        for o in r['impl']:
            m = re.search(r'st=(\S+)', o)
            k = m.group(1) if m else o.split('@')[0][:40]
            statuses[k] = statuses.get(k, 0) + 1
        res.cov.update(case_kinds=kinds, frames_handed_on=frames_out, chunkings=chunk_modes, terminal_status=statuses,
                       recv_calls=STATS['recv'], recv_short_reads=STATS['partial'],
                       stream_bytes=sum((len(l.split()[1]) // 2) for l in lines if len(l.split()) == 3 and l.split()[1] != '-'),
                       reader_variant='as found' if 'def readerFirstCheck : Bool := false' in open(vlib.LEAN + '/Fix8Model/Gen/Reader.lean').read() else 'repaired')
