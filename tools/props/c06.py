"""C06 length-prefixed data fields carry arbitrary bytes: theorems Props.C06 + stream `codec` (rt on messages with Length/data pairs)"""
import re
import vlib, gen_facts
from props import codec_common as cc
from props import c01

THEOREMS = ['C06_fixed_width', 'C06_data_roundtrip', 'C06_data_roundtrip_header', 'C06_message_roundtrip', 'C06_finding_group_data', 'C06_finding_trailer_signature']


def special_data(rng, n):
    c = rng.random()
    if c < 0.2:
        return b'\x01' * n
    if c < 0.4:
        return (b'\x0110=000\x01' * (n // 8 + 1))[:n]
    if c < 0.5:
        return (b'=' * n)
    if c < 0.6:
        return (b'\x0135=D\x019=12\x01' * (n // 11 + 1))[:n]
    return bytes(rng.randrange(1, 256) for _ in range(n))


def gen(rng, sc, n):
    import random
    lines, meta = _gen(random.Random('C06-directed'), sc, 60)      # covers every known-finding class in every run
    l2, m2 = _gen(rng, sc, n)
    meta.update(m2)
    return lines + l2, meta


def _gen(rng, sc, n):
    lines, meta = [], {}
    def add(mt, items, klass):
        l, its = cc.spec_line('rt', mt, items, rng, want_items=True)
        lines.append(l)
        meta[l] = (mt, its, klass)
    pair_msgs = [mt for mt, tr in sc['msgs'] if any(cc.kind(sc, t[1]) == 'data' for t in tr)]
    for i in range(n):
        c = rng.random()
        tags = []
        if c < 0.6:
            mt, items = cc.gen_message(rng, sc, p_opt=rng.choice((0.3, 0.7, 1.0)), msgtype=rng.choice(pair_msgs) if rng.random() < 0.6 else None, data_tags=tags)
            klass = None
        elif c < 0.75:
            mt, items = cc.gen_message(rng, sc, p_opt=rng.choice((0.5, 1.0)), data_tags=tags, group_data=True)
            klass = 'data-in-group' if any(_in_group_data(sc, i2) for i2 in items) else None
        elif c < 0.85:
            mt, items = cc.gen_message(rng, sc, p_opt=0.3, data_tags=tags, trailer_sig=True)
            klass = 'trailer-signature-pair'
        else:
            mt, items = cc.gen_message(rng, sc, p_opt=0.6, data_tags=tags)
            klass = None
        # special contents and boundary lengths on one of the pairs outside groups
        top = [i2 for i2 in items if i2.elems is None and i2.sec in 'hb' and _is_data(sc, mt, i2)]
        if top and rng.random() < 0.7:
            d = rng.choice(top)
            nlen = rng.choice((0, 1, 2, 7, 100, 2046, 2047))
            if len(cc.ref_encode(sc, mt, items)[0]) + nlen > 7600:
                nlen = rng.choice((0, 1, 2, 7, 100))
            d.val = special_data(rng, nlen)
            for i2 in items:
                if i2.sec == d.sec and i2.tag == d.tag - 1 and i2.elems is None:
                    i2.val = str(nlen).encode()
        if klass is None and rng.random() < 0.1 and top:
            d = rng.choice(top)
            if len(d.val) >= 2:
                d.val = d.val[:1] + b'\x00' + d.val[2:]
                klass = 'nul-in-data'
        add(mt, items, klass)
        # the same message decoded in PERMISSIVE mode (the permissive_mode login parameter): a data value is still taken by its length,
        # whatever it contains (missed seed C06-4: the trailer was searched for from the front in that mode)
        if klass is None and top and rng.random() < 0.4:
            l0 = lines[-1]
            wire, _ = cc.ref_encode(sc, mt, meta[l0][1])
            lp = 'dec p ' + cc.hx(wire)
            lines.append(lp)
            meta[lp] = (mt, meta[l0][1], 'PERMISSIVE')
    return lines, meta


def _is_data(sc, mt, it):
    traits = sc['header'] if it.sec == 'h' else sc['trailer'] if it.sec == 't' else [x for x in sc['msgs'] if x[0] == mt][0][1]
    tr = [t for t in traits if t[0] == it.tag]
    return bool(tr) and cc.kind(sc, tr[0][1]) == 'data'


def _in_group_data(sc, it):
    if not it.elems:
        return False
    for e in it.elems:
        for x in e:
            if x.elems:
                if _in_group_data(sc, x):
                    return True
            elif any(cc.kind(sc, t[1]) == 'data' and t[0] == x.tag for g in sc['groups'] for t in g):
                return True
    return False


def run(res, replay=None):
    rng = vlib.rng_for('C06', res.seed)
    errs = gen_facts.generate(['consts'])
    sc = cc.schema()
    if replay:
        lines = [l.strip() for l in open(replay) if l.strip() and not l.startswith('#')]
        meta = {}
    else:
        lines, meta = gen(rng, sc, 300 if res.tier == 'quick' else 12000)
        lines = vlib.corpus_lines('C06') + lines
    base = c01.make_oracle(sc, {l: (m[0], m[1]) for l, m in meta.items() if m[2] != 'PERMISSIVE'})
    OKP = re.compile(r'^ok (H\[.*\] B\[.*\] T\[.*\]) re=(\S+)$')

    def oracle(line, out):
        if line in meta and meta[line][2] == 'PERMISSIVE':
            mt, items, _ = meta[line]
            m = OKP.match(out)
            if not m:
                return (False, None)            # a well-formed message with data fields must be accepted in permissive mode too
            try:
                d = cc.parse_dump(m.group(1))
            except Exception:
                return (False, None)
            body_tr = [x for x in sc['msgs'] if x[0] == mt][0][1]
            exp_h = cc.expected_tree(sc, sc['header'], [i for i in items if i.sec == 'h'])
            exp_b = cc.expected_tree(sc, body_tr, [i for i in items if i.sec == 'b'])
            hi = d['H'][0]
            return (len(hi) >= 3 and hi[2] == (35, mt, None) and hi[3:] == exp_h and d['B'][0] == exp_b, None)
        ok, _ = base(line, out)
        if ok is False and line in meta and meta[line][2]:
            return (False, meta[line][2])
        return (ok, None)
    res.assumptions += ['contents are arbitrary bytes 1..255 (NUL is the known finding nul-in-data), lengths 0..2047 (the field limit FIX8_MAX_FLD_LENGTH - 1)', 'only FIX42UTEST: its Length/data pairs in header (90/91, 212/213), '
                        'body (e.g. 95/96, 354/355, 348/349, 350/351 ...), inside groups (known finding), and the trailer pair 93/89 (known finding)']
    res.cov['rule'] = ('messages with Length/data pairs in header and body with contents of SOH runs, CheckSum look-alikes, "=" runs, preamble look-alikes and random bytes at lengths 0,1,2,7,100,2046,2047; pairs inside repeating groups; '
                       'the trailer Signature pair; NUL contents; oracle as C01 (decoded fields = built fields, re-encoded = encoded); distinct by line')
    vlib.decide_stream(res, module='Fix8Model.Props.C06', theorems=THEOREMS, stream='codec', harness_name='codec', lines=lines,
                       oracle=oracle, nontrivial=lambda l: l, harness_kw=dict(need_schema=True), extra_obligation_problems=errs)
    kl = {}
    for l in lines:
        if l in meta:
            kl[meta[l][2] or 'plain'] = kl.get(meta[l][2] or 'plain', 0) + 1
    res.cov['classes_generated'] = kl
