"""C05 permissive decoding passes unknown fields through: theorems Props.C05 + stream `codec` (dec p on conforming messages with unknown tokens inserted)"""
import re, collections
import vlib, gen_facts
from props import codec_common as cc

THEOREMS = ['C05_known_fields_same', 'C05_header_fields_kept', 'C05_body_fields_kept', 'C05_section_simulation', 'C05_finding_handover', 'C05_finding_unknown_in_header', 'C05_finding_known_field_lost', 'C05_finding_unknown_in_group']
OK = re.compile(r'^ok (H\[.*\] B\[.*\] T\[.*\]) re=(\S+)$')
UNKNOWN_TAGS = (5000, 7000, 9000, 20000, 65535, 1234, 70000, 100001, 1000000)      # the last three wrap (mod 65536) to 4464, 34465, 16960: unknown as well


def gen(rng, sc, n):
    import random
    lines, meta = _gen(random.Random('C05-directed'), sc, 60)      # covers every known-finding class in every run
    l2, m2 = _gen(rng, sc, n)
    meta.update(m2)
    return lines + l2, meta


def _gen(rng, sc, n):
    lines, meta = [], {}
    for i in range(n):
        # capped: the re-encoding of a permissively decoded message repeats body and trailer (finding permissive-section-handover), and an
        # over-long re-encoding would run into the encoder's buffer (C03 finding encode-buffer-overflow), which is not C05's subject
        mt, items = cc.gen_message_capped(rng, sc, max_payload=2400, p_opt=rng.choice((0.0, 0.3, 0.8)), with_data=rng.random() < 0.3)
        wire, toks = cc.ref_encode(sc, mt, items)
        toks = [(b'%d' % t, v) for t, v in toks]
        body_tr = [m for m in sc['msgs'] if m[0] == mt][0][1]
        nh = 1 + len(cc.ref_tokens(sc, sc['header'], [i2 for i2 in items if i2.sec == 'h']))
        nb = len(cc.ref_tokens(sc, body_tr, [i2 for i2 in items if i2.sec == 'b']))
        depth = [0] + cc.token_depths(sc, sc['header'], [i2 for i2 in items if i2.sec == 'h']) + cc.token_depths(sc, body_tr, [i2 for i2 in items if i2.sec == 'b'])
        k = rng.choice((0, 1, 1, 1, 2, 3))
        where = []
        ins = []
        for _ in range(k):
            c = rng.random()
            if c < 0.25:
                p, w = rng.randrange(1, nh), 'header-mid'              # inside the header, a known header field follows
            elif c < 0.4:
                p, w = nh, 'header-end'
            elif c < 0.75:
                p = rng.randrange(nh, nh + nb + 1)
                w = 'body-in-group' if p < len(depth) and depth[p] > 0 else 'body'
            else:
                p, w = len(toks), 'before-checksum'
            if 0 < p < len(toks) and int(toks[p][0]) == int(toks[p - 1][0]) + 1 and re.fullmatch(rb'\d+', toks[p - 1][1]):
                p -= 1                                       # never between a Length field and its data field
                if w == 'body-in-group' and not (p < len(depth) and depth[p] > 0):
                    w = 'body'
            ins.append((p, (b'%d' % rng.choice(UNKNOWN_TAGS), rng.choice((b'blah', b'x', b'', b'a=b', b'12.5')))))
            where.append(w)
        # data-field values must not be split: only insert at token boundaries computed on the clean token list (already the case)
        unk = []
        for p, t in sorted(ins, key=lambda x: -x[0]):
            toks.insert(p, t)
            unk.append(t)
        raw = cc.reframe(sc, toks)
        l = 'dec p ' + cc.hx(raw)
        lines.append(l)
        meta[l] = (mt, items, unk, where, raw)
    return lines, meta


def make_oracle(sc, meta, stats):
    def oracle(line, out):
        if line not in meta:
            return (None, None)
        mt, items, unk, where, raw = meta[line]
        cls_reject = 'permissive-unknown-in-header' if 'header-mid' in where else 'permissive-unknown-in-group' if 'body-in-group' in where else None
        m = OK.match(out)
        if not m:
            stats['rejected'] = stats.get('rejected', 0) + 1
            return (False, cls_reject)                      # must be accepted
        stats['accepted'] = stats.get('accepted', 0) + 1
        try:
            d = cc.parse_dump(m.group(1))
        except Exception:
            return (False, None)
        body_tr = [x for x in sc['msgs'] if x[0] == mt][0][1]
        exp_h = cc.expected_tree(sc, sc['header'], [i for i in items if i.sec == 'h'])
        exp_b = cc.expected_tree(sc, body_tr, [i for i in items if i.sec == 'b'])
        exp_t = cc.expected_tree(sc, sc['trailer'], [i for i in items if i.sec == 't'])
        hi = d['H'][0]
        known_same = (hi[:3] and hi[0][0] == 8 and hi[2] == (35, mt, None) and hi[3:] == exp_h and d['B'][0] == exp_b
                      and [x for x in d['T'][0] if x[0] != 10] == exp_t)
        if not known_same:
            return (False, cls_reject)                      # a known field lost or changed
        re_ = cc.unhx(m.group(2))
        retained = all((t + b'=' + v + b'\x01') in re_ for t, v in unk)
        if not retained:
            return (False, None)                            # an unknown field was not re-emitted at all
        # byte-for-byte: the re-encoded token multiset must equal the input's (nothing duplicated, nothing lost)
        a, _ = cc.tokenize(raw)
        b, _ = cc.tokenize(re_)
        def ms(ts):
            return collections.Counter((t, v) for t, v in ts if t not in (b'9', b'10'))
        if any(cc.kind(sc, t[1]) == 'data' for t in body_tr + sc['header']) and (b'\x01' in b''.join(i.val for i in items if i.elems is None)):
            exact = len(re_) == len(raw)                    # data values with SOH defeat plain tokenisation: compare sizes
        else:
            exact = ms(a) == ms(b)
        if not exact:
            return (False, 'permissive-section-handover')
        return (True, None)
    return oracle


def run(res, replay=None):
    rng = vlib.rng_for('C05', res.seed)
    errs = gen_facts.generate(['consts'])
    sc = cc.schema()
    if replay:
        lines = [l.strip() for l in open(replay) if l.strip() and not l.startswith('#')]
        meta = {}
    else:
        lines, meta = gen(rng, sc, 500 if res.tier == 'quick' else 20000)
        lines = vlib.corpus_lines('C05') + lines
    stats = {}
    res.assumptions += ['unknown tokens use tags outside the field table; they are inserted at token boundaries of a conforming message (inside the header, between header and body, inside the body incl. between group elements, before the CheckSum)',
                        'known finding permissive-section-handover: every permissive decode re-encodes with duplicated content (the header decoder swallows the remaining message into its pass-through buffer); the oracle still requires '
                        'acceptance, identical known fields and at least one re-emission of every unknown field', 'only FIX42UTEST']
    res.cov['rule'] = 'conforming messages as in C01 with 0..3 unknown tag=value tokens inserted at header / header-end / body / pre-checksum positions, decoded in permissive mode and re-encoded; distinct by line'
    vlib.decide_stream(res, module='Fix8Model.Props.C05', theorems=THEOREMS, stream='codec', harness_name='codec', lines=lines,
                       oracle=make_oracle(sc, meta, stats), nontrivial=lambda l: l, harness_kw=dict(need_schema=True), extra_obligation_problems=errs)
    res.cov['verdicts'] = stats
