"""C09 date/time codecs: theorems Props.C09 + correspondence stream `time`"""
import datetime, vlib, gen_facts

THEOREMS = ['C09_timestamp', 'C09_timeonly', 'C09_dateonly', 'C09_monthyear', 'C09_logstamp_secs', 'day_facts']
TMAX = 4102444800
EPOCH = datetime.datetime(1970, 1, 1)


def hx(s):
    return s.encode().hex() if s else '-'


def dt(t):
    return EPOCH + datetime.timedelta(seconds=t)


def gen(rng, n, thorough):
    lines = []
    days = range(0, 47482) if thorough else sorted(set(rng.randrange(47482) for _ in range(n)) | {0, 1, 58, 59, 60, 365, 789, 790, 10956, 10957, 11015, 11016, 11017, 24855, 24856, 47481, 47480})
    for z in days:
        lines.append('civil %d' % z)
        for sod in (0, 86399, rng.randrange(86400)):
            t = z * 86400 + sod
            ms = rng.choice((0, 999, rng.randrange(1000)))
            lines.append('ts %d %d' % (t, ms))
            if rng.random() < 0.4:
                lines.append('to %d %d' % (t, ms))
            if rng.random() < 0.4:
                lines.append('do %d' % t)
            if rng.random() < 0.4:
                lines.append('my %d' % t)
    for i in range(n):
        t = rng.randrange(TMAX)
        ns = rng.choice((0, 400000000, 499999999, 500000000, 999999999, 999999500, 999999600, 999500000, rng.randrange(10**9)))
        lines.append('log %d %d %d' % (rng.choice((t, t - t % 60 + 59)), ns, rng.choice((0, 1, 2, 3, 6, 6, 9, rng.randrange(0, 13)))))
    return lines


def oracle(line, out):
    w = line.split()
    o = out.split()
    if w[0] == 'civil':
        d = dt(int(w[1]) * 86400)
        return (out == '%d %d %d' % (d.year, d.month, d.day), None)
    if w[0] == 'ts':
        t, ms = int(w[1]), int(w[2])
        return (out == '%s %d' % (hx(dt(t).strftime('%Y%m%d-%H:%M:%S') + '.%03d' % ms), t * 1000 + ms), None)
    if w[0] == 'to':
        t, ms = int(w[1]), int(w[2])
        return (out == '%s %d' % (hx(dt(t).strftime('%H:%M:%S') + '.%03d' % ms), (t % 86400) * 1000 + ms), None)
    if w[0] == 'do':
        t = int(w[1])
        return (out == '%s %d' % (hx(dt(t).strftime('%Y%m%d')), t - t % 86400), None)
    if w[0] == 'my':
        e = hx(dt(int(w[1])).strftime('%Y%m'))
        return (out == '%s %s' % (e, e), None)
    if w[0] == 'log':
        t, ns, dp = int(w[1]), int(w[2]), int(w[3])
        try:
            txt = bytes.fromhex(out).decode()
        except ValueError:
            return (False, None)
        ok = txt[:2] == '%02d' % (t % 60) and (len(txt) == 2 if dp == 0 else (txt[2] == '.' and len(txt) == 3 + dp and txt[3:3 + min(dp, 9)] == ('%09d' % ns)[:min(dp, 9)]))
        return (ok, None)
    return (None, None)


def nontrivial(line):
    return line


def run(res, replay=None):
    rng = vlib.rng_for('C09', res.seed)
    errs = gen_facts.generate(['mon_days'])
    if replay:
        lines = [l.strip() for l in open(replay) if l.strip() and not l.startswith('#')]
    else:
        lines = vlib.corpus_lines('C09') + gen(rng, 700 if res.tier == 'quick' else 20000, res.tier == 'thorough')
    res.cov['exhaustive_days'] = (res.tier == 'thorough' and not replay)
    res.assumptions += ['libc gmtime_r is modelled by civilFromDays; compared with the real gmtime_r on every generated day (all 47482 days in the thorough tier)',
                        'local-time rendering (localtime_r, time zone database) is outside the model; only UTC renderings are compared',
                        'the day table is proved by 24 kernel-evaluated chunks (decide +kernel); mon_days and the seconds constants are regenerated from field.hpp']
    res.cov['rule'] = ('days 1970-01-01..2099-12-31 (quick: ~700 random + leap/century/2038 boundaries; thorough: all 47482) x times {00:00:00, 23:59:59, random} x ms {0, 999, random}; '
                       'UTCTimestamp, UTCTimeOnly, UTCDateOnly+LocalMktDate, MonthYear(6) render+parse, gmtime_r vs model, log stamp at rounding-critical nanoseconds and 0..12 places; '
                       'every line is distinct and non-trivial (real calendar arithmetic)')
    vlib.decide_stream(res, module='Fix8Model.Props.C09', theorems=THEOREMS, stream='time', harness_name='timeh',
                       lines=lines, oracle=oracle, nontrivial=nontrivial, harness_kw=dict(need_lib=True),
                       extra_obligation_problems=errs)
