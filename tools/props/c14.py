"""C14 distinct repeating-group definitions never share metadata: theorems Props.C14 about the FIXED f8c (probe on a hash hit: every group of
every message generated from its own definition for every closed insertion sequence, boundedness of the probe, key stability, facts about the key
group_hash, regression theorems for the former finding witnesses) + stream `f8c`: schemas reusing one count field with identical / different /
structurally close / equal-key definitions (order-only, flag-only, component-only, manufactured key collisions incl. a definition that is a prefix of the other; identical outer definitions whose innermost nested groups, two or three levels down, differ only by order / flag / key collision), compiled by the fresh f8c and g++,
every message's group read back and round-tripped; every family must PASS the specification oracle."""
import vlib, gen_facts, f8cfacts, f8ctv

THEOREMS = ['C14_sound', 'C14_share_only_same', 'C14_probe_exits', 'C14_exit_condition', 'C14_key_stable', 'C14_key_inserted', 'C14_own_slot',
            'C14_stored_was_inserted', 'C14_hash_blind', 'C14_hash_member_set', 'C14_collision_lemma', 'C14_rothash_affine', 'C14_key_collision_any',
            'C14_difference_linear', 'C14_key_collision_witness', 'C14_fixed_blind_separate', 'C14_fixed_collision', 'C14_fixed_order_only',
            'C14_fixed_flag_only', 'C14_fixed_nested']


def gen(rng, thorough):
    cases = []
    n_valid = 6 if thorough else 0
    n_known = 4 if thorough else 0
    # all valid families in one schema (twice per quick run), plus each family on its own in thorough
    for _ in range(8 if thorough else 2):
        cases.append(dict(S=f8ctv.fam_reuse_multi(rng, f8ctv.MULTI_ALL), valid=True, rt=[]))
    for fam in f8ctv.VALID_REUSE:
        for _ in range(n_valid):
            cases.append(dict(S=fam(rng), valid=True, rt=[]))
    # equal-key families (formerly the known class): one rotating family per quick run (the corpus holds one regression of each), all in thorough
    fams = f8ctv.SAMEKEY_REUSE if thorough else [f8ctv.SAMEKEY_REUSE[rng.randrange(len(f8ctv.SAMEKEY_REUSE))]]
    for fam in fams:
        for _ in range(max(1, n_known)):
            cases.append(dict(S=fam(rng), valid=True, rt=[]))
    return cases


def run(res, replay=None):
    rng = vlib.rng_for('C14', res.seed)
    errs = gen_facts.generate(['f8c'])
    if errs:
        res.violation('\n'.join(errs), 'generated facts for the f8c model unavailable: ' + errs[0][:200], no_input=True)
        res.cov.update(evaluations=0, distinct_nontrivial=0)
        return
    thorough = res.tier == 'thorough'
    if replay:
        cases = f8ctv.parse_replay(replay)
    else:
        import os
        cases = []
        for p in sorted(__import__('glob').glob(os.path.join(vlib.ROOT, 'corpus', 'C14', '*.txt'))):
            cases += f8ctv.parse_replay(p)
        if not thorough:
            cases = cases[:4]       # quick: the prefix-with-equal-key regression and the three headline regressions (key collision {2,100}/{3,8261}, order-only, flag-only)
        cases += gen(rng, thorough)
    res.assumptions += ['std::map modelled as an association list with unique keys; the V<n> numbering of shared trait arrays is not observable in the metadata and not modelled',
                        'the option --noshared (every hash unique) is never passed and not modelled',
                        'the `_hash` member of a group spec is not carried by the model: the key is recomputed against the final map, justified by the proved key stability (C14_key_stable / C14_key_inserted)',
                        'C14_sound assumes fewer than 2^32 group occurrences per schema (the bound under which the 32-bit probing loop terminates, C14_probe_exits)',
                        'rothash constants (shifts 2/5/13, 0x80001801) are extracted from include/fix8/f8utils.hpp into Gen/F8cFacts.lean on every run',
                        'generated code compiled with g++ -O0 + ASan/UBSan (no debug info) through a precompiled header; dumper and runtime library at -O1 -g with the sanitizers',
                        'UBSan vptr reports inside message.hpp/message.cpp are suppressed (has_group_count casts every count field to Field<int,0>)']
    res.cov['rule'] = ('schemas with one repeating-group count field used by 2-4 messages: identical definitions, unrelated definitions, definitions differing in one member, in the nested group only, '
                       'in the nesting boundary of a member, and the equal-key families (the former finding): order-only, mandatory-flag-only, component-origin-only differences and different member sets '
                       'manufactured to collide with the proved partner formula; in EVERY family each group must be generated from its own definition. Each schema: fresh f8c, g++, tables read back through F8MetaCntx and compared with '
                       'the model and with the schema itself; per message a full, and random-subset message built, encoded, decoded, re-encoded. distinct = distinct schema text; non-trivial = has at least one message')
    f8ctv.run_tv(res, module='Fix8Model.Props.C14', theorems=THEOREMS, cases=cases, per_msg=3 if thorough else 2)
