"""C10 enumerated-value lookups: theorems Props.C10 + generated realm tables + stream `tab` (idx/rng ops)"""
import vlib, gen_facts

THEOREMS = ['C10_set_index', 'C10_set_none', 'C10_set_valid', 'C10_range_valid', 'C10_range_index', 'C10_utest_sorted']


def hx(b):
    return b.hex() if b else '-'


def gen(rng, d, n):
    lines = []
    for r in d['realms']:
        if r['ty'] not in ('int', 'char', 'string', 'bool'):
            continue
        vals = [v for v, _ in r['vals']]
        cands = set()
        if r['ty'] == 'bool':
            cands |= {b'Y', b'N'}   # any other text is not a value of the type (it parses to false)
        elif r['ty'] == 'char':
            for c in range(1, 128):
                cands.add(bytes([c]))
        elif r['ty'] == 'int':
            iv = [int(v) for v in vals]
            for x in range(min(iv) - 3, max(iv) + 4):
                cands.add(str(x).encode())
            for _ in range(10):
                cands.add(str(rng.randrange(-1000, 100000)).encode())
        else:
            sv = [bytes.fromhex(v) for v in vals]
            alpha = sorted(set(b for s in sv for b in s) | {0x20, 0x30, 0x41, 0x7a})
            for s in sv:
                cands.add(s)
                cands.add(s + bytes([rng.choice(alpha)]))
                if len(s) > 1:
                    cands.add(s[:-1])
                cands.add(bytes([max(1, s[0] - 1)]) + s[1:])
                cands.add(s[:-1] + bytes([min(126, s[-1] + 1)]))
            for a in alpha:
                cands.add(bytes([a]))
            for _ in range(30):
                cands.add(bytes(rng.choice(alpha) for _ in range(rng.randrange(1, 4))))
        cl = sorted(cands)
        if len(cl) > n:
            cl = rng.sample(cl, n)
        ok = [c for c in cl if c and 0 not in c and len(c) <= 30]
        for c in ok:
            lines.append('idx %d %s' % (r['fnum'], hx(c)))
        # the same lookups on a field object that held (and was looked up with) ANOTHER value before: assigned from another field,
        # or changed by set() - the answer must belong to the current value only
        members = [c for c in ok if (c in [bytes.fromhex(v) for v in vals] if r['ty'] == 'string' else True)]
        for k in range(min(len(ok), 12 if n <= 100 else 60)):
            a, b = rng.choice(members or ok), rng.choice(ok)
            if r['ty'] == 'bool':
                continue
            lines.append('asg %d %s %s %d' % (r['fnum'], hx(a), hx(b), (0, 2)[k % 2]))      # (mode 1, a copy(): copies carry no realm, their index is always absent)
    for _ in range(200):
        lo = rng.randrange(-50, 50); hi = lo + rng.randrange(0, 40)
        for v in (lo - 1, lo, lo + 1, hi - 1, hi, hi + 1, rng.randrange(lo - 5, hi + 6)):
            lines.append('rng %d %d %d' % (lo, hi, v))
    return lines


def make_oracle(d):
    rm = {r['fnum']: r for r in d['realms']}
    def oracle(line, out):
        w = line.split()
        if w[0] == 'asg':
            w = ['idx', w[1], w[3]]          # judged as a fresh lookup of the value the field holds now
        if w[0] == 'idx':
            r = rm[int(w[1])]
            txt = bytes.fromhex(w[2])
            if r['ty'] == 'int':
                keys = [int(v) for v, _ in r['vals']]
                try:
                    val = int(txt.decode())
                except ValueError:
                    return (None, None)
            elif r['ty'] in ('char', 'bool'):
                keys = [int(v) for v, _ in r['vals']]; val = txt[0]
            else:
                keys = [bytes.fromhex(v) for v, _ in r['vals']]; val = txt
            if val in keys:
                i = keys.index(val)
                exp = 'idx=%d valid=1 desc=%s' % (i, hx(r['vals'][i][1].encode('latin1')))
            else:
                exp = 'idx=-1 valid=0 desc=-'
            return (out == exp, None)
        if w[0] == 'rng':
            lo, hi, v = int(w[1]), int(w[2]), int(w[3])
            valid = 1 if lo <= v <= hi else 0
            if v == lo:
                exp = 'idx=0 valid=%d desc=%s' % (valid, hx(b'LOWER'))
            elif v == hi:
                exp = 'idx=1 valid=%d desc=%s' % (valid, hx(b'UPPER'))
            else:
                exp = 'idx=-1 valid=%d desc=-' % valid
            return (out == exp, None)
        return (None, None)
    return oracle


def run(res, replay=None):
    rng = vlib.rng_for('C10', res.seed)
    errs = gen_facts.generate(['itoa_table'])
    d = None
    try:
        d = gen_facts.tables_utest()
    except gen_facts.FactError as e:
        errs.append('generated fact tables_utest: %s' % e)
    if d is None:
        res.violation('\n'.join(errs), 'generated facts for C10 unavailable: ' + errs[-1][:200], no_input=True)
        res.cov.update(evaluations=0, distinct_nontrivial=0)
        return
    if replay:
        lines = [l.strip() for l in open(replay) if l.strip() and not l.startswith('#')]
    else:
        lines = vlib.corpus_lines('C10') + gen(rng, d, 60 if res.tier == 'quick' else 100000)
    res.assumptions += ['string domains are compared through an order-preserving integer code (NUL-free, at most 32 bytes); the Lean theorems are over integer-coded tables',
                        'std::lower_bound modelled by its bisection; descriptions are checked by the Python oracle against the dumped table',
                        'no range domain exists in the compiled schema: range lookups are exercised on a hand-made RealmBase in the harness']
    res.cov['rule'] = ('every enumerated field of the freshly compiled FIX42UTEST schema x candidate values (all chars 1..127 / ints around the domain / member strings and near misses), '
                       'through the generated field factory, and on field objects that held another value before (operator= from another field, set()); plus range realms with bounds and neighbours. distinct by line; all lines non-trivial (a lookup)')
    res.cov['realms'] = len(d['realms'])
    def compare(l, impl, model):
        return impl.split(' desc=')[0] == model
    vlib.decide_stream(res, module='Fix8Model.Props.C10', theorems=THEOREMS, stream='tab', harness_name='tables',
                       lines=lines, oracle=make_oracle(d), nontrivial=lambda l: l, compare=compare,
                       harness_kw=dict(need_schema=True), extra_obligation_problems=errs)
