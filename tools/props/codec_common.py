"""shared generator / parsing helpers of the codec properties C01-C06, C11 (schema-driven message generator over the
metadata dumped from the freshly compiled FIX42UTEST schema)"""
import datetime, re
import gen_facts, vlib

F_MAND, F_PRESENT, F_POS, F_GROUP, F_COMP, F_SUPPRESS, F_AUTO = 1, 2, 4, 8, 16, 32, 64
EPOCH = datetime.datetime(1970, 1, 1)
_schema = None


def schema():
    global _schema
    if _schema is None:
        _schema = gen_facts.schema_utest()
    return _schema


def eff_pos(t):
    """FieldTraits::getPos: 0 unless the position bit is set (user-defined fields added with f8c -F)"""
    return t[2] if t[3] & F_POS else 0


def kind(sc, ftype):
    return sc['code_kind'].get(ftype, 'other')


def hx(b):
    return b.hex() or '-'


def unhx(s):
    return b'' if s == '-' else bytes.fromhex(s)


PRINTABLE = bytes(range(32, 127))


def gen_value(rng, k, tag=0):
    if k in ('int',):
        return str(rng.choice((0, 1, -1, 7, 42, -30, 100, 65535, 2147483647, -2147483648, rng.randrange(-10**6, 10**6), rng.randrange(-2**31, 2**31)))).encode()
    if k == 'char':
        return bytes([rng.choice(PRINTABLE)])
    if k == 'bool':
        return rng.choice((b'Y', b'N'))
    if k == 'float':
        ip = rng.choice((0, 1, 5, 12, 100, 99999, rng.randrange(0, 10**6), rng.randrange(0, 10**9)))
        fr = rng.choice(('.0', '.0', '.25', '.5', '.75'))
        neg = '-' if rng.random() < 0.3 and (ip or fr != '.0') else ''
        return (neg + str(ip) + fr).encode()
    if k == 'string':
        n = rng.choice((0, 1, 1, 2, 3, 5, 8, 20, rng.randrange(1, 60)))      # the empty string is a value too
        s = bytes(rng.choice(PRINTABLE) for _ in range(n))
        if rng.random() < 0.15:
            s = s[:1] + b'=' + s[1:]
        return s
    if k == 'monthYear':
        d = EPOCH + datetime.timedelta(days=rng.randrange(0, 47482))
        return (d.strftime('%Y%m') if rng.random() < 0.5 else d.strftime('%Y%m%d')).encode()
    if k == 'timestamp':
        t = rng.choice((0, 951782400, 2147483647, 2147483648, 4102444799, rng.randrange(0, 4102444800)))
        d = EPOCH + datetime.timedelta(seconds=t)
        return (d.strftime('%Y%m%d-%H:%M:%S') + '.%03d' % rng.choice((0, 1, 999, rng.randrange(1000)))).encode()
    if k == 'timeOnly':
        t = rng.randrange(86400)
        return ('%02d:%02d:%02d.%03d' % (t // 3600, t % 3600 // 60, t % 60, rng.randrange(1000))).encode()
    if k == 'dateOnly':
        d = EPOCH + datetime.timedelta(days=rng.randrange(0, 47482))
        return d.strftime('%Y%m%d').encode()
    return None


def gen_data(rng):
    n = rng.choice((0, 1, 2, 5, 17, 64, rng.randrange(0, 200)))
    alphabet = bytes(range(1, 256))
    b = bytes(rng.choice(alphabet) for _ in range(n))
    c = rng.random()
    if c < 0.3 and n >= 2:
        b = b[:1] + b'\x01' + b[2:]
    elif c < 0.5 and n >= 12:
        b = b[:2] + b'\x0110=000\x01' + b[11:]
    elif c < 0.6 and n >= 2:
        b = b'=' + b[1:]
    return b


class Item:
    def __init__(self, sec, tag, val, elems=None):
        self.sec, self.tag, self.val, self.elems = sec, tag, val, elems

    def spec(self):
        p = {'h': 'h', 't': 't', 'b': ''}[self.sec]
        if self.elems is None:
            return '%s%d=%s' % (p, self.tag, hx(self.val))
        return '%s%d=%s[ %s]' % (p, self.tag, hx(self.val), ''.join('{ %s} ' % ''.join(i.spec() + ' ' for i in e) for e in self.elems))


def gen_items(rng, sc, traits, sec, depth, p_opt, skip=(), with_data=True, data_tags=None, group_data=False):
    """a conforming set of items for one trait list, in schema position order"""
    by_tag = {t[0]: t for t in traits}
    items = []
    used = set()
    for (tag, ft, pos, fl, sub) in sorted(traits, key=lambda t: t[2]):
        if tag in skip or tag in used or fl & F_PRESENT:
            continue
        k = kind(sc, ft)
        if not (fl & F_MAND) and rng.random() > p_opt:
            continue
        if k == 'length':
            # a Length field is emitted together with its data field when the next tag is its data partner
            partner = by_tag.get(tag + 1)
            if partner is not None and kind(sc, partner[1]) == 'data' and with_data:
                d = gen_data(rng)
                items.append(Item(sec, tag, str(len(d)).encode()))
                items.append(Item(sec, tag + 1, d))
                used.add(tag + 1)
                if data_tags is not None:
                    data_tags.append(tag + 1)
            elif fl & F_MAND:
                items.append(Item(sec, tag, b'0'))
            continue
        if k == 'data' or k == 'other':
            continue
        if fl & F_GROUP:
            n = rng.choice((0, 1, 1, 2, 2, 3, 4)) if depth < 3 else rng.choice((0, 1))
            gtraits = sc['groups'][sub]
            first = min(gtraits, key=lambda t: t[2])
            elems = []
            for _ in range(n):
                # group elements never carry data pairs: decode_group has no length handling (C06 finding), generated separately
                e = gen_items(rng, sc, gtraits, 'b', depth + 1, p_opt, with_data=group_data, data_tags=data_tags if group_data else None, group_data=group_data)
                if not e or e[0].tag != first[0]:
                    fk = kind(sc, first[1])
                    if first[3] & F_GROUP:
                        e = None
                    else:
                        fv = gen_value(rng, fk, first[0]) if fk not in ('length', 'data', 'other') else b'0'
                        e = [Item('b', first[0], fv)] + [i for i in e if i.tag != first[0]]
                if e:
                    elems.append(e)
            items.append(Item(sec, tag, str(len(elems)).encode(), elems))
            continue
        v = gen_value(rng, k, tag)
        if v is None:
            continue
        items.append(Item(sec, tag, v))
    return items


def gen_message(rng, sc, p_opt=None, msgtype=None, data_tags=None, with_data=True, group_data=False, trailer_sig=False, trailer_plain=0.0):
    mt, traits = rng.choice(sc['msgs']) if msgtype is None else [m for m in sc['msgs'] if m[0] == msgtype][0]
    p_opt = rng.choice((0.0, 0.15, 0.5, 0.9, 1.0)) if p_opt is None else p_opt
    h = gen_items(rng, sc, sc['header'], 'h', 0, p_opt * 0.6, with_data=with_data, data_tags=data_tags)
    b = gen_items(rng, sc, traits, 'b', 0, p_opt, with_data=with_data, data_tags=data_tags, group_data=group_data)
    t = gen_items(rng, sc, sc['trailer'], 't', 0, 0.0)      # 93/89 (Signature) is not an adjacent pair: C06 finding, generated separately
    if trailer_sig:
        d = gen_data(rng)
        t = [Item('t', 93, str(len(d)).encode()), Item('t', 89, d)]
    elif trailer_plain and rng.random() < trailer_plain:
        d = bytes(rng.choice(PRINTABLE) for _ in range(rng.choice((1, 4, 17))))      # a Signature without SOH/NUL decodes with the plain tokeniser
        t = [Item('t', 93, str(len(d)).encode()), Item('t', 89, d)] if rng.random() < 0.7 else [Item('t', 89, d)]
    return mt, h + b + t


def spec_line(cmd, mt, items, rng=None, want_items=False):
    its = list(items)
    if rng is not None:
        rng.shuffle(its)           # insertion order must not matter (except among fields without a schema position)
    line = '%s M=%s %s' % (cmd, hx(mt), ' '.join(i.spec() for i in its))
    return (line, its) if want_items else line


# ------------------------------------------------------------------------------------------------
# parsing the harness dump  H[..] B[..] T[..]

def parse_dump(s):
    """'H[...] B[...] T[...]' -> dict sec -> (items, unknown) ; items = list of (tag, bytes, elems|None)"""
    pos = [0]

    def items_until(close):
        out, unk = [], b''
        while pos[0] < len(s):
            if s[pos[0]] == ' ':
                pos[0] += 1
                continue
            if s[pos[0]] == close:
                pos[0] += 1
                break
            m = re.compile(r'U([0-9a-f-]+)').match(s, pos[0])
            if m:
                unk = unhx(m.group(1))
                pos[0] = m.end()
                continue
            m = re.compile(r'(\d+)=([0-9a-f]+|-)').match(s, pos[0])
            if not m:
                raise ValueError('bad dump at %d: %r' % (pos[0], s[pos[0]:pos[0] + 40]))
            pos[0] = m.end()
            tag, val, elems = int(m.group(1)), unhx(m.group(2)), None
            if pos[0] < len(s) and s[pos[0]] == '[':
                pos[0] += 1
                elems = []
                while s[pos[0]] == '{':
                    pos[0] += 1
                    e, _ = items_until('}')
                    elems.append(e)
                assert s[pos[0]] == ']'
                pos[0] += 1
            out.append((tag, val, elems))
        return out, unk

    res = {}
    for sec in 'HBT':
        i = s.index(sec + '[', pos[0])
        pos[0] = i + 2
        res[sec] = items_until(']')
    return res


def expected_tree(sc, traits, items):
    """the items of a spec (one section) as (tag, val, elems) sorted by schema position, recursively"""
    pos = {t[0]: t for t in traits}
    out = []
    for it in sorted(items, key=lambda i: eff_pos(pos[i.tag])):      # stable: fields without a position keep insertion order
        if it.elems is None or not it.elems:
            out.append((it.tag, it.val, None))
        else:
            g = sc['groups'][pos[it.tag][4]]
            out.append((it.tag, it.val, [expected_tree(sc, g, e) for e in it.elems]))
    return out


def kv(out):
    """'a=.. b=..' result line -> dict (values up to next ' key=') ; a trailing 'throw:X' is stored under 'throw'"""
    d = {}
    m = re.search(r'(?:^| )(throw:\w+|abort:\S+|hang|UNMODELLED)$', out)
    if m:
        d['throw'] = m.group(1)
        out = out[:m.start()]
    for m in re.finditer(r'(\w+)=(.*?)(?= \w+=|$)', out):
        d[m.group(1)] = m.group(2)
    return d


# ------------------------------------------------------------------------------------------------
# an independent reference encoder and conformance recogniser (written from the FIX tag=value rules, not from the model)

def ref_tokens(sc, traits, items):
    """flatten one section (items in schema position order, stable) into (tag, value) tokens"""
    pos = {t[0]: t for t in traits}
    out = []
    for it in sorted(items, key=lambda i: eff_pos(pos[i.tag])):
        out.append((it.tag, it.val))
        if it.elems:
            g = sc['groups'][pos[it.tag][4]]
            for e in it.elems:
                out += ref_tokens(sc, g, e)
    return out


def token_depths(sc, traits, items, depth=0):
    """group nesting depth of every token of ref_tokens(sc, traits, items) (0 = section level, count fields included)"""
    pos = {t[0]: t for t in traits}
    out = []
    for it in sorted(items, key=lambda i: eff_pos(pos[i.tag])):
        out.append(depth)
        if it.elems:
            g = sc['groups'][pos[it.tag][4]]
            for e in it.elems:
                out += token_depths(sc, g, e, depth + 1)
    return out


def render_tokens(toks):
    return b''.join(b'%d=%s\x01' % (t, v) if isinstance(t, int) else t + b'=' + v + b'\x01' for t, v in toks)


def frame(sc, payload):
    """BeginString / BodyLength in front, CheckSum behind"""
    front = b'8=' + sc['beginstr'] + b'\x019=%d\x01' % len(payload) + payload
    return front + b'10=%03d\x01' % (sum(front) % 256)


def ref_encode(sc, mt, items):
    body_tr = [m for m in sc['msgs'] if m[0] == mt][0][1]
    h = [i for i in items if i.sec == 'h']
    b = [i for i in items if i.sec == 'b']
    t = [i for i in items if i.sec == 't']
    toks = [(35, mt)] + ref_tokens(sc, sc['header'], h) + ref_tokens(sc, body_tr, b) + ref_tokens(sc, sc['trailer'], t)
    return frame(sc, render_tokens(toks)), toks


def tokenize(raw):
    """plain tag=value|SOH tokenisation (no data-field awareness); returns list of (tagbytes, value) and leftover"""
    toks, i = [], 0
    while i < len(raw):
        j = raw.find(b'\x01', i)
        if j < 0:
            break
        f = raw[i:j]
        k = f.find(b'=')
        if k < 0:
            break
        toks.append((f[:k], f[k + 1:]))
        i = j + 1
    return toks, raw[i:]


# ------------------------------------------------------------------------------------------------
# mutated / malformed wire streams for `dec`

def tok_bytes(toks):
    return b''.join(t + b'=' + v + b'\x01' for t, v in toks)


def reframe(sc, toks, fix_len=True, good_chk=True):
    """toks: list of (tagbytes, value) WITHOUT 8/9/10; builds a frame"""
    payload = tok_bytes(toks)
    front = b'8=' + sc['beginstr'] + b'\x019=%d\x01' % (len(payload) if fix_len else 7) + payload
    c = sum(front) % 256
    if not good_chk:
        c = (c + 1 + (c % 7)) % 256
    return front + b'10=%03d\x01' % c


MUTATIONS = ('none', 'unknown_tag', 'foreign_tag', 'big_tag', 'dup', 'drop_mandatory', 'bad_chk', 'numtext', 'swap_sections', 'group_first',
             'count_mismatch', 'trailer_tag_in_body', 'dup_auto', 'begin_garbage', 'tag80', 'truncate', 'no_soh', 'long_value', 'long_tag', 'random_bytes',
             'empty_tag', 'huge_count', 'len_data_bad', 'nul_in_value')


def mutate(rng, sc, mt, items, kind):
    """returns (raw bytes, info) for a message mutated in the given way"""
    body_tr = [m for m in sc['msgs'] if m[0] == mt][0][1]
    wire, toks = ref_encode(sc, mt, items)
    toks = [(b'%d' % t, v) for t, v in toks]
    nh = 1 + len(ref_tokens(sc, sc['header'], [i for i in items if i.sec == 'h']))
    nb = len(ref_tokens(sc, body_tr, [i for i in items if i.sec == 'b']))
    known = set(sc['fields'])
    body_tags = {t[0] for t in body_tr}
    hdr_tags = {t[0] for t in sc['header']}
    def pick_pos():
        c = rng.random()
        if c < 0.2:
            return rng.randrange(1, nh + 1)                    # inside / end of header
        if c < 0.7:
            return rng.randrange(nh, nh + nb + 1)              # body
        return len(toks)                                       # just before the checksum
    if kind == 'none':
        return reframe(sc, toks), {}
    if kind == 'unknown_tag':
        t = rng.choice([x for x in (5000, 7, 9000, 20000, 448, 65535, 0) if x not in known] or [50000])
        p = pick_pos()
        toks.insert(p, (b'%d' % t, b'blah'))
        return reframe(sc, toks), dict(pos=p, tag=t)
    if kind == 'foreign_tag':
        cand = sorted(known - body_tags - hdr_tags - {8, 9, 10, 35, 89, 93})
        t = rng.choice(cand)
        p = pick_pos()
        toks.insert(p, (b'%d' % t, b'1'))
        return reframe(sc, toks), dict(pos=p, tag=t)
    if kind == 'big_tag':
        base = rng.choice(sorted(body_tags - {t for t, _ in [(int(a), b) for a, b in toks]}) or [58])
        p = rng.randrange(nh, nh + nb + 1)
        toks.insert(p, (b'%d' % (base + 65536 * rng.choice((1, 2, 7))), b'1'))
        return reframe(sc, toks), dict(pos=p, alias=base)
    if kind == 'dup':
        p = rng.randrange(1, len(toks))
        toks.insert(rng.randrange(p + 1, len(toks) + 1), toks[p])
        return reframe(sc, toks), dict(pos=p)
    if kind == 'drop_mandatory':
        mand = {t[0] for t in body_tr + sc['header'] if t[3] & F_MAND}
        idx = [i for i, (t, _) in enumerate(toks) if int(t) in mand and i > 0]
        if idx:
            del toks[rng.choice(idx)]
        return reframe(sc, toks), {}
    if kind == 'bad_chk':
        return reframe(sc, toks, good_chk=False), {}
    if kind == 'numtext':
        ints = [i for i, (t, v) in enumerate(toks) if i > 0 and re.fullmatch(rb'\d+', v) and int(t) not in (9,)]
        if ints:
            i = rng.choice(ints)
            t, v = toks[i]
            toks[i] = (t, rng.choice((b'+' + v, b'00' + v, v + b' ', b' ' + v, v + b'.0', b'0x' + v)))
        return reframe(sc, toks), {}
    if kind == 'swap_sections':
        if nb and nh > 1:
            i, j = rng.randrange(1, nh), rng.randrange(nh, nh + nb)
            toks[i], toks[j] = toks[j], toks[i]
        return reframe(sc, toks), {}
    if kind == 'trailer_tag_in_body':
        toks.insert(rng.randrange(nh, nh + nb + 1), (b'10', b'000'))
        return reframe(sc, toks), {}
    if kind == 'dup_auto':
        toks.insert(rng.randrange(1, nh + 1), rng.choice(((b'35', mt), (b'8', b'FIX.4.2'), (b'9', b'12'), (b'35', b'Z'))))
        return reframe(sc, toks), {}
    if kind == 'begin_garbage':
        payload = tok_bytes(toks)
        front = b'8=' + rng.choice((b'GARBAGE', b'FIX.4.4', b'')) + b'\x019=%d\x01' % len(payload) + payload
        return front + b'10=%03d\x01' % (sum(front) % 256), {}
    if kind == 'tag80':
        payload = tok_bytes(toks)
        pre = rng.choice((b'80=FIX.4.2\x019=%d\x01', b'8=FIX.4.2\x0198=%d\x01', b'8=FIX.4.2\x019=%d\x01'))
        if b'%d' in pre:
            pre = pre % len(payload)
        if rng.random() < 0.5:
            payload = b'351=' + mt + b'\x01' + tok_bytes(toks[1:])
        front = pre + payload
        return front + b'10=%03d\x01' % (sum(front) % 256), {}
    if kind == 'truncate':
        raw = reframe(sc, toks)
        return raw[:rng.randrange(0, len(raw))], {}
    if kind == 'no_soh':
        raw = bytearray(reframe(sc, toks))
        idx = [i for i, c in enumerate(raw) if c == 1]
        for i in rng.sample(idx, min(len(idx), rng.choice((1, 1, 2)))):
            raw[i] = rng.choice(b'|;x')
        return bytes(raw), {}
    if kind == 'empty_tag':
        toks.insert(pick_pos(), (rng.choice((b'', b'x', b'-5', b'1a')), b'1'))
        return reframe(sc, toks), {}
    if kind == 'nul_in_value':
        strs = [i for i, (t, v) in enumerate(toks) if i > 0 and len(v) >= 3]
        if strs:
            i = rng.choice(strs)
            t, v = toks[i]
            toks[i] = (t, v[:1] + b'\x00' + v[2:])
        return reframe(sc, toks), {}
    if kind == 'group_first' or kind == 'count_mismatch' or kind == 'huge_count':
        # work on the structured items: find a group with >= 1 element
        import copy
        its = copy.deepcopy(items)
        grp = [i for i in its if i.elems]
        if not grp:
            return reframe(sc, toks), dict(nogroup=True)
        g = rng.choice(grp)
        if kind == 'group_first':
            e = rng.choice(g.elems)
            if len(e) >= 2:
                e.append(e.pop(0))              # first field no longer first
            else:
                e[0] = Item('b', e[0].tag + 0, e[0].val)
                g.elems.insert(0, [])            # no-op
                g.elems = [x for x in g.elems if x]
        elif kind == 'count_mismatch':
            g.val = str(len(g.elems) + rng.choice((1, 2, -1 if len(g.elems) > 1 else 1))).encode()
        else:
            g.val = rng.choice((b'999999999', b'2147483647', b'4294967295', b'-1'))
        # group elements keep the given field order: flatten by hand (no position sort inside the mutated element)
        def flat(traits, items_):
            pos = {t[0]: t for t in traits}
            out = []
            for it in items_:
                out.append((b'%d' % it.tag, it.val))
                if it.elems:
                    gt = sc['groups'][pos[it.tag][4]]
                    for e in it.elems:
                        out += flat(gt, e)
            return out
        h = sorted([i for i in its if i.sec == 'h'], key=lambda i: eff_pos({t[0]: t for t in sc['header']}[i.tag]))
        b = sorted([i for i in its if i.sec == 'b'], key=lambda i: eff_pos({t[0]: t for t in body_tr}[i.tag]))
        toks2 = [(b'35', mt)] + flat(sc['header'], h) + flat(body_tr, b)
        return reframe(sc, toks2), {}
    if kind == 'long_value':
        n = rng.choice((2046, 2047, 2048, 2049, 3000, 5000))
        strs = [i for i, (t, v) in enumerate(toks) if i >= nh]
        i = rng.choice(strs) if strs else len(toks) - 1
        toks[i] = (toks[i][0], bytes(rng.choice(PRINTABLE) for _ in range(n)))
        return reframe(sc, toks), dict(n=n)
    if kind == 'long_tag':
        n = rng.choice((30, 31, 32, 33, 40, 2047, 2048, 2100))
        toks.insert(pick_pos() if rng.random() < 0.7 else 0, (b'1' * n, b'x'))
        return reframe(sc, toks), dict(n=n)
    if kind == 'len_data_bad':
        pairs = [i for i, (t, v) in enumerate(toks[:-1]) if int(t) + 1 == int(toks[i + 1][0]) and re.fullmatch(rb'\d+', v) and int(t) != 9]
        if pairs:
            i = rng.choice(pairs)
            t, v = toks[i]
            toks[i] = (t, rng.choice((b'%d' % (int(v) + 1), b'%d' % max(0, int(v) - 1), b'2047', b'2048', b'99999', b'-1', b'')))
        return reframe(sc, toks), {}
    if kind == 'random_bytes':
        n = rng.choice((0, 1, 6, 7, 8, 20, 100, 1000, rng.randrange(0, 8192)))
        c = rng.random()
        if c < 0.4:
            return bytes(rng.randrange(256) for _ in range(n)), {}
        if c < 0.7:
            return b'8=FIX.4.2\x019=12\x0135=' + rng.choice((b'0', b'D', b'8', b'i')) + b'\x01' + bytes(rng.choice(b'0123456789=\x01ABC|') for _ in range(n)) + b'10=000\x01', {}
        return bytes(rng.choice(b'0123456789=\x01') for _ in range(n)), {}
    raise ValueError(kind)


def payload_len(sc, mt, items):
    wire, _ = ref_encode(sc, mt, items)
    pre = b'8=' + sc['beginstr'] + b'\x019='
    i = wire.index(b'\x01', len(pre))
    return len(wire) - (i + 1) - 7


def pad_to(rng, sc, mt, items, target):
    """adjust a header string field (SenderSubID 50) so that the BodyLength is exactly `target`; None if impossible"""
    items = [i for i in items if not (i.sec == 'h' and i.tag == 50)]
    base = payload_len(sc, mt, items)
    need = target - base - len(b'50=\x01')
    if need < 1 or need > 2000:
        return None
    return items + [Item('h', 50, bytes(rng.choice(PRINTABLE.replace(b'=', b'')) for _ in range(need)))]


# ------------------------------------------------------------------------------------------------
# C02: a stand-alone recogniser of well-formed FIX wire text for a schema (written from the property's clauses)

def wire_problems(sc, mt, wire):
    probs = []
    bs = sc['beginstr']
    pre = b'8=' + bs + b'\x019='
    if not wire.startswith(pre):
        return ['does not start with BeginString followed by BodyLength']
    j = wire.find(b'\x01', len(pre))
    lentxt = wire[len(pre):j]
    if not re.fullmatch(rb'[1-9]\d*|0', lentxt):
        return ['BodyLength is not a canonical decimal: %r' % lentxt]
    if wire[-7:-4] != b'10=' or wire[-1:] != b'\x01' or not re.fullmatch(rb'\d{3}', wire[-4:-1]):
        return ['does not end with a three-digit CheckSum field']
    payload = wire[j + 1:-7]
    if int(lentxt) != len(payload):
        probs.append('BodyLength %s but %d bytes between BodyLength and CheckSum' % (lentxt.decode(), len(payload)))
    if int(wire[-4:-1]) != sum(wire[:-7]) % 256:
        probs.append('CheckSum %s but byte sum mod 256 is %d' % (wire[-4:-1].decode(), sum(wire[:-7]) % 256))
    if not payload.startswith(b'35=' + mt + b'\x01'):
        probs.append('MsgType is not the third field')
    body_tr = [m for m in sc['msgs'] if m[0] == mt][0][1]
    pos = [len(b'35=' + mt + b'\x01')]

    def next_token(traits_by_tag, prev):
        """(tag, value) at pos, data-aware: a data field directly after its Length field takes that many bytes"""
        m = re.compile(rb'([1-9]\d*)=').match(payload, pos[0])
        if not m:
            return None
        tag = int(m.group(1))
        start = m.end()
        tr = traits_by_tag.get(tag)
        if tr is not None and kind(sc, tr[1]) == 'data' and prev is not None and prev[0] + 1 == tag and re.fullmatch(rb'\d+', prev[1]):
            n = int(prev[1])
            if payload[start + n:start + n + 1] != b'\x01':
                return None
            val = payload[start:start + n]
            end = start + n + 1
        else:
            e = payload.find(b'\x01', start)
            if e < 0:
                return None
            val = payload[start:e]
            end = e + 1
        return tag, val, end

    def section(traits, name, depth=0, stop_tags=()):
        by = {t[0]: t for t in traits}
        lastpos, seen, prev = 0, set(), None
        while pos[0] < len(payload):
            tk = next_token(by, prev)
            if tk is None:
                probs.append('not a tag=value<SOH> field at payload offset %d' % pos[0])
                pos[0] = len(payload)
                return
            tag, val, end = tk
            if tag not in by or tag in seen:
                return                          # belongs to the next section / next element / enclosing level
            tr = by[tag]
            p = eff_pos(tr)
            if p and p < lastpos:
                probs.append('%s field %d (position %d) after position %d' % (name, tag, p, lastpos))
            lastpos = max(lastpos, p)
            seen.add(tag)
            pos[0] = end
            prev = (tag, val)
            if tr[3] & F_GROUP and re.fullmatch(rb'\d+', val) and int(val) > 0:
                g = sc['groups'][tr[4]]
                first = min(g, key=lambda t: t[2])[0]
                n = 0
                while pos[0] < len(payload):
                    m = re.compile(rb'([1-9]\d*)=').match(payload, pos[0])
                    if not m or int(m.group(1)) != first:
                        break
                    before = pos[0]
                    section(g, 'group %d' % tag, depth + 1)
                    n += 1
                    if pos[0] == before:
                        break
                if n != int(val):
                    probs.append('group %d announces %s elements, %d elements starting with field %d follow' % (tag, val.decode(), n, first))
                prev = None
    section(sc['header'], 'header')
    section(body_tr, 'body')
    section(sc['trailer'], 'trailer')
    if pos[0] != len(payload):
        probs.append('field at payload offset %d is neither a header, body nor trailer field in sequence' % pos[0])
    return probs


# ------------------------------------------------------------------------------------------------
# C04: independent recogniser of "schema-conforming message" on raw bytes, and the token list it is made of

CANON_INT = re.compile(rb'-?(0|[1-9]\d*)')


def _date_ok(d):
    y, m, dd = int(d[:4]), int(d[4:6]), int(d[6:8])
    if not (1970 <= y <= 2099 and 1 <= m <= 12 and dd >= 1):
        return False
    ml = (31, 29 if y % 4 == 0 and (y % 100 != 0 or y % 400 == 0) else 28, 31, 30, 31, 30, 31, 31, 30, 31, 30, 31)[m - 1]
    return dd <= ml


def _time_ok(t):
    return int(t[0:2]) <= 23 and int(t[3:5]) <= 59 and int(t[6:8]) <= 59


def in_domain(k, val):
    """is the text a literal of the field's type whose value the typed field class can hold (so that the decoded value equals the text)?
    everything else belongs to the finding class value-text-not-validated when it is accepted"""
    if k in ('int', 'length'):
        return bool(CANON_INT.fullmatch(val)) and val != b'-0' and -2**31 <= int(val) <= 2**31 - 1
    if k == 'char':
        return len(val) == 1
    if k == 'bool':
        return val in (b'Y', b'N')
    if k == 'float':
        return bool(re.fullmatch(rb'-?\d+(\.\d+)?', val)) and len(val.replace(b'-', b'').replace(b'.', b'')) <= 15
    if k == 'timestamp':
        return bool(re.fullmatch(rb'\d{8}-\d\d:\d\d:\d\d(\.\d{3})?', val)) and _date_ok(val[:8]) and _time_ok(val[9:17])
    if k == 'timeOnly':
        return bool(re.fullmatch(rb'\d\d:\d\d:\d\d(\.\d{3})?', val)) and _time_ok(val[:8])
    if k == 'dateOnly':
        return bool(re.fullmatch(rb'\d{8}', val)) and _date_ok(val)
    if k == 'monthYear':
        if not re.fullmatch(rb'\d{6}(\d\d)?', val):
            return False
        return _date_ok(val if len(val) == 8 else val + b'01')
    return True


def conformance(sc, raw):
    """returns (problems, tokens, classes): problems = why the byte string is not a schema-conforming message (empty = conforming);
    tokens = [(section, path, tag, value)] in wire order when tokenisable; classes = finding classes this input falls into"""
    probs, classes = [], set()
    bs = sc['beginstr']
    toks = []
    # --- frame
    m = re.compile(rb'(\d*)=([^\x01]*)\x01(\d*)=([^\x01]*)\x01(\d*)=([^\x01]*)\x01').match(raw)
    if not m:
        return ['no BeginString/BodyLength/MsgType preamble'], [], classes
    t8, v8, t9, v9, t35, mt = m.groups()
    if t8 != b'8' or t9 != b'9' or t35 != b'35':
        probs.append('preamble tags are %r %r %r' % (t8, t9, t35))
        classes.add('preamble-lenient')
    if v8 != bs:
        probs.append('BeginString %r is not %r' % (v8, bs))
        classes.add('preamble-lenient')
    if len(raw) < m.end() + 7 or raw[-7:-4] != b'10=' or raw[-1:] != b'\x01':
        if len(raw) >= 7 and raw[-7:-5] == b'10':
            classes.add('trailer-lenient')      # only the two characters "10" are looked at, seven bytes from the end
        return probs + ['no CheckSum field at the end'], [], classes
    if not re.fullmatch(rb'\d{3}', raw[-4:-1]) or int(raw[-4:-1]) != sum(raw[:-7]) % 256:
        probs.append('CheckSum wrong')
    if not CANON_INT.fullmatch(v9) or int(v9) != len(raw) - 7 - m.start(5):
        probs.append('BodyLength does not match')       # not verified by the factory (the socket reader frames by it): class
        classes.add('bodylength-unchecked')
    msg = [x for x in sc['msgs'] if x[0] == mt]
    if not msg:
        return probs + ['unknown MsgType %r' % mt], [], classes
    body_tr = msg[0][1]
    payload = raw[m.start(5):-7]        # from the MsgType field on
    pos = [0]
    toks += [('H', (), 8, v8), ('H', (), 9, v9)]

    def next_token(by, prev):
        mm = re.compile(rb'(\d*)=').match(payload, pos[0])
        if not mm:
            return None
        tagb = mm.group(1)
        if not tagb or (len(tagb) > 1 and tagb[0:1] == b'0'):
            return ('bad', tagb)
        tag = int(tagb)
        start = mm.end()
        tr = by.get(tag)
        if tr is not None and kind(sc, tr[1]) == 'data' and prev is not None and prev[0] + 1 == tag and CANON_INT.fullmatch(prev[1]) and int(prev[1]) >= 0:
            n = int(prev[1])
            if payload[start + n:start + n + 1] != b'\x01':
                return ('bad', tagb)
            return tag, payload[start:start + n], start + n + 1
        e = payload.find(b'\x01', start)
        if e < 0:
            return None
        return tag, payload[start:e], e + 1

    def section(traits, name, path, preset=(), sec=None):
        sec = sec or name[0].upper()
        by = {t[0]: t for t in traits}
        seen, prev = set(preset), None
        while pos[0] < len(payload):
            tk = next_token(by, prev)
            if tk is None or tk[0] == 'bad':
                break
            tag, val, end = tk
            if tag >= 65536:
                classes.add('tag-alias')
            if tag not in by:
                break
            if tag in seen:
                if path:
                    break                       # next element of the enclosing group
                probs.append('%s field %d repeats' % (name, tag))
                if kind(sc, by[tag][1]) == 'data':
                    classes.add('data-duplicate')
                if by[tag][3] & F_AUTO:
                    classes.add('automatic-duplicate')
                pos[0] = end
                continue
            tr = by[tag]
            seen.add(tag)
            pos[0] = end
            prev = (tag, val)
            toks.append((sec, path, tag, val))
            k = kind(sc, tr[1])
            if not in_domain(k, val):
                classes.add('value-text-not-validated')
            if b'\x00' in val:
                classes.add('nul-in-value')
            if k == 'length' and CANON_INT.fullmatch(val) and not (0 <= int(val) <= 2047):
                probs.append('Length field %d = %s outside 0..2047' % (tag, val.decode()))
            if tr[3] & F_GROUP and CANON_INT.fullmatch(val) and int(val) > 0:
                g = sc['groups'][tr[4]]
                first = min(g, key=lambda t: t[2])[0]
                n = 0
                while pos[0] < len(payload):
                    mm = re.compile(rb'(\d+)=').match(payload, pos[0])
                    if not mm:
                        break
                    nt = int(mm.group(1))
                    before = pos[0]
                    if nt != first:
                        if nt in {t[0] for t in g}:
                            probs.append('group %d: element does not begin with field %d' % (tag, first))
                            n += 1
                            section(g, 'group', path + ((tag, n),), sec=sec)
                            if pos[0] == before:
                                break
                            continue
                        break
                    n += 1
                    section(g, 'group', path + ((tag, n),), sec=sec)
                    if pos[0] == before:
                        break
                if n != int(val):
                    classes.add('count-mismatch')
                prev = None
        missing = [t[0] for t in traits if t[3] & F_MAND and t[0] not in seen]
        if missing:
            probs.append('%s: mandatory field(s) %s missing' % (name, missing))

    # MsgType is the first payload token
    section(sc['header'], 'header', (), preset=(8, 9))
    section(body_tr, 'body', ())
    section(sc['trailer'], 'trailer', (), preset=(10,))
    if pos[0] != len(payload):
        probs.append('field at payload offset %d is not valid where it appears' % pos[0])
        classes.add('invalid-tag-accepted')
    toks.append(('T', (), 10, raw[-4:-1]))
    return probs, toks, classes


def flatten_dump(d):
    """parsed dump -> [(section, path, tag, printed value)] in order"""
    out = []

    def walk(sec, items, path):
        for tag, val, elems in items:
            out.append((sec, path, tag, val))
            if elems:
                for i, e in enumerate(elems, 1):
                    walk(sec, e, path + ((tag, i),))
    for sec in 'HBT':
        walk(sec, d[sec][0], ())
    return out


def value_equiv(k, text, printed):
    if printed == text:
        return True
    try:
        if k in ('int', 'length') and CANON_INT.fullmatch(text) is None and re.fullmatch(rb'-?\d+', text):
            return int(text) == int(printed)                 # leading zeros: same number
        if k == 'float' and re.fullmatch(rb'-?\d+(\.\d+)?', text):
            return abs(float(text) - float(printed)) < 5e-3
        if k == 'timestamp' and len(text) == 17:
            return printed == text + b'.000'
        if k == 'timeOnly' and len(text) == 8:
            return printed == text + b'.000'
        if k == 'bool':
            return text[:1].upper() == printed
    except ValueError:
        pass
    return False


# ------------------------------------------------------------------------------------------------
# second schema instance: the stock FIX44 schema (two-pass f8c), stream `codec44`

_schema44 = None


def schema44():
    global _schema44
    if _schema44 is None:
        _schema44 = gen_facts.schema_fix44()
    return _schema44


def run_second_schema(res, lines, oracle, label='FIX44', stream='codec44'):
    """run `lines` through the FIX44 build of the codec harness and the `codec44` driver stream; same verdict rules as
    vlib.decide_stream (oracle failure -> concrete violation; model/impl difference with the oracle holding -> no-failing-input-found)"""
    try:
        exe = vlib.build_harness('codec', need_schema=True, schema=vlib.FIX44, extra_flags=vlib.FIX44_FLAGS)
    except vlib.BuildError as e:
        res.violation('codec harness for %s does not build\n%s' % (label, str(e)[-1500:]), 'correspondence harness for %s cannot be built from the current tree' % label, no_input=True)
        return dict(evaluations=0)
    impl, aborts = vlib.run_harness(exe, lines)
    try:
        model = vlib.run_driver(stream, lines)
    except vlib.BuildError as e:
        res.violation(str(e)[-1500:], 'model driver stream %s unavailable' % stream, no_input=True)
        return dict(evaluations=0)
    mism, concrete, unmod = [], 0, 0
    for i, l in enumerate(lines):
        ok, klass = oracle(l, impl[i])
        if ok is False:
            concrete += 1
            if concrete <= 3:
                res.violation(l, '%s: property oracle fails on the implementation: %s -> %s (model: %s)' % (label, l[:160], impl[i][:160], model[i][:160]))
        elif 'UNMODELLED' in model[i]:
            unmod += 1
        elif impl[i] != model[i]:
            mism.append(i)
    if mism and not concrete:
        i = mism[0]
        res.violation('\n'.join(lines[j] for j in mism[:5]), '%s: model and implementation differ on %d of %d lines although the property oracle holds; first: %s -> impl %s / model %s'
                      % (label, len(mism), len(lines), lines[i][:160], impl[i][:160], model[i][:160]), no_input=True)
    return dict(evaluations=len(lines), mismatches=len(mism), oracle_failures=concrete, aborts=len(aborts), unmodelled_lines=unmod,
                sample=dict(input=lines[0][:300], impl=impl[0][:300], model=model[0][:300]) if lines else None)


def gen_message_capped(rng, sc, max_payload=7000, **kw):
    """gen_message, retried with fewer optional fields until the encoded payload fits the encoder's buffer (larger messages are C03's known finding)"""
    p = kw.pop('p_opt', None)
    for attempt in range(30):
        mt, items = gen_message(rng, sc, p_opt=p, **kw)
        if payload_len(sc, mt, items) <= max_payload:
            return mt, items
        p = 0.3 if p is None or p > 0.3 else p / 2
    return mt, [i for i in items if i.elems is None][:8]


# ------------------------------------------------------------------------------------------------
# copy_legal into ANOTHER message type (C02 ordering clause + C11 transfer clause; missed seed C02-3)

def gen_xcopy(rng, sc, n):
    """`xcopy <target type> M=<source> items`: a message is built, its body is copy_legal'ed into a fresh message of a different
    type, the target is encoded.  Sources without repeating groups (the whole expected rendering is known) and with groups."""
    lines, meta = [], {}
    types = [m[0] for m in sc['msgs']]
    tags_of = {m[0]: {t[0] for t in m[1]} for m in sc['msgs']}
    for i in range(n):
        for _ in range(60):
            mt, items = gen_message(rng, sc, p_opt=rng.choice((0.4, 0.8, 1.0)), with_data=False)
            body = [x for x in items if x.sec == 'b']
            if i % 3 and any(x.elems is not None for x in body):
                continue
            # a target that shares at least three body tags with the source
            # (a repeating group of the source that is also legal in the target is left out: the two types may define the group
            # differently, and an element copied without the target's first field is the caller's doing, not the encoder's)
            gtags = {x.tag for x in body if x.elems is not None}
            cands = [t for t in types if t != mt and len(tags_of[t] & {x.tag for x in body}) >= 3 and not (tags_of[t] & gtags)]
            if cands:
                break
        else:
            continue
        tmt = rng.choice(cands)
        l = 'xcopy %s %s' % (hx(tmt), spec_line('x', mt, items, rng)[2:])
        lines.append(l)
        meta[l] = (mt, tmt, items)
    return lines, meta


def xcopy_oracle(sc, meta):
    def oracle(line, out):
        if line not in meta:
            return (None, None)
        mt, tmt, items = meta[line]
        if not out.startswith('xcopy='):
            return (False, None)
        wire = unhx(out.split()[0][6:])
        probs = wire_problems(sc, tmt, wire)          # frame, BodyLength, CheckSum, section order, POSITION ORDER of the target type, group shape
        ttr = {t[0]: t for t in [m for m in sc['msgs'] if m[0] == tmt][0][1]}
        body = [x for x in items if x.sec == 'b']
        legal = [x for x in body if x.tag in ttr]
        if not any(x.elems is not None for x in body):
            # no groups: the target must be exactly the legal fields, in the target's position order
            ref, _ = ref_encode(sc, tmt, legal)
            if ref != wire and len([x for x in legal if eff_pos(ttr[x.tag]) == 0]) < 2:
                probs.append('target differs from the position-ordered rendering of the legal source fields')
        else:
            for x in legal:
                if x.elems is None and (b'\x01%d=' % x.tag + x.val + b'\x01') not in wire:
                    probs.append('legal field %d missing from the target' % x.tag)
        return (not probs, None)
    return oracle

