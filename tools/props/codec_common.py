"""shared generator / parsing helpers of the codec properties C01-C06, C11 (schema-driven message generator over the
metadata dumped from the freshly compiled FIX42UTEST schema)"""
import datetime, re
import gen_facts, vlib

F_MAND, F_PRESENT, F_POS, F_GROUP, F_COMP, F_SUPPRESS, F_AUTO = 1, 2, 4, 8, 16, 32, 64
EPOCH = datetime.datetime(1970, 1, 1)
_schema = None


def schema():
    global _schema
    if _schema is None:
        _schema = gen_facts.schema_utest()
    return _schema


def kind(sc, ftype):
    return sc['code_kind'].get(ftype, 'other')


def hx(b):
    return b.hex() or '-'


def unhx(s):
    return b'' if s == '-' else bytes.fromhex(s)


PRINTABLE = bytes(range(32, 127))


def gen_value(rng, k, tag=0):
    if k in ('int',):
        return str(rng.choice((0, 1, -1, 7, 42, -30, 100, 65535, 2147483647, -2147483648, rng.randrange(-10**6, 10**6), rng.randrange(-2**31, 2**31)))).encode()
    if k == 'char':
        return bytes([rng.choice(PRINTABLE)])
    if k == 'bool':
        return rng.choice((b'Y', b'N'))
    if k == 'float':
        ip = rng.choice((0, 1, 5, 12, 100, 99999, rng.randrange(0, 10**6), rng.randrange(0, 10**9)))
        fr = rng.choice(('.0', '.0', '.25', '.5', '.75'))
        neg = '-' if rng.random() < 0.3 and (ip or fr != '.0') else ''
        return (neg + str(ip) + fr).encode()
    if k == 'string':
        n = rng.choice((1, 1, 2, 3, 5, 8, 20, rng.randrange(1, 60)))
        s = bytes(rng.choice(PRINTABLE) for _ in range(n))
        if rng.random() < 0.15:
            s = s[:1] + b'=' + s[1:]
        return s
    if k == 'monthYear':
        d = EPOCH + datetime.timedelta(days=rng.randrange(0, 47482))
        return (d.strftime('%Y%m') if rng.random() < 0.5 else d.strftime('%Y%m%d')).encode()
    if k == 'timestamp':
        t = rng.choice((0, 951782400, 2147483647, 2147483648, 4102444799, rng.randrange(0, 4102444800)))
        d = EPOCH + datetime.timedelta(seconds=t)
        return (d.strftime('%Y%m%d-%H:%M:%S') + '.%03d' % rng.choice((0, 1, 999, rng.randrange(1000)))).encode()
    if k == 'timeOnly':
        t = rng.randrange(86400)
        return ('%02d:%02d:%02d.%03d' % (t // 3600, t % 3600 // 60, t % 60, rng.randrange(1000))).encode()
    if k == 'dateOnly':
        d = EPOCH + datetime.timedelta(days=rng.randrange(0, 47482))
        return d.strftime('%Y%m%d').encode()
    return None


def gen_data(rng):
    n = rng.choice((0, 1, 2, 5, 17, 64, rng.randrange(0, 200)))
    alphabet = bytes(range(1, 256))
    b = bytes(rng.choice(alphabet) for _ in range(n))
    c = rng.random()
    if c < 0.3 and n >= 2:
        b = b[:1] + b'\x01' + b[2:]
    elif c < 0.5 and n >= 12:
        b = b[:2] + b'\x0110=000\x01' + b[11:]
    elif c < 0.6 and n >= 2:
        b = b'=' + b[1:]
    return b


class Item:
    def __init__(self, sec, tag, val, elems=None):
        self.sec, self.tag, self.val, self.elems = sec, tag, val, elems

    def spec(self):
        p = {'h': 'h', 't': 't', 'b': ''}[self.sec]
        if self.elems is None:
            return '%s%d=%s' % (p, self.tag, hx(self.val))
        return '%s%d=%s[ %s]' % (p, self.tag, hx(self.val), ''.join('{ %s} ' % ''.join(i.spec() + ' ' for i in e) for e in self.elems))


def gen_items(rng, sc, traits, sec, depth, p_opt, skip=(), with_data=True, data_tags=None):
    """a conforming set of items for one trait list, in schema position order"""
    by_tag = {t[0]: t for t in traits}
    items = []
    used = set()
    for (tag, ft, pos, fl, sub) in sorted(traits, key=lambda t: t[2]):
        if tag in skip or tag in used or fl & F_PRESENT:
            continue
        k = kind(sc, ft)
        if not (fl & F_MAND) and rng.random() > p_opt:
            continue
        if k == 'length':
            # a Length field is emitted together with its data field when the next tag is its data partner
            partner = by_tag.get(tag + 1)
            if partner is not None and kind(sc, partner[1]) == 'data' and with_data:
                d = gen_data(rng)
                items.append(Item(sec, tag, str(len(d)).encode()))
                items.append(Item(sec, tag + 1, d))
                used.add(tag + 1)
                if data_tags is not None:
                    data_tags.append(tag + 1)
            elif fl & F_MAND:
                items.append(Item(sec, tag, b'0'))
            continue
        if k == 'data' or k == 'other':
            continue
        if fl & F_GROUP:
            n = rng.choice((0, 1, 1, 2, 2, 3, 4)) if depth < 3 else rng.choice((0, 1))
            gtraits = sc['groups'][sub]
            first = min(gtraits, key=lambda t: t[2])
            elems = []
            for _ in range(n):
                # group elements never carry data pairs: decode_group has no length handling (C06 finding), generated separately
                e = gen_items(rng, sc, gtraits, 'b', depth + 1, p_opt, with_data=False)
                if not e or e[0].tag != first[0]:
                    fk = kind(sc, first[1])
                    if first[3] & F_GROUP:
                        e = None
                    else:
                        fv = gen_value(rng, fk, first[0]) if fk not in ('length', 'data', 'other') else b'0'
                        e = [Item('b', first[0], fv)] + [i for i in e if i.tag != first[0]]
                if e:
                    elems.append(e)
            items.append(Item(sec, tag, str(len(elems)).encode(), elems))
            continue
        v = gen_value(rng, k, tag)
        if v is None:
            continue
        items.append(Item(sec, tag, v))
    return items


def gen_message(rng, sc, p_opt=None, msgtype=None, data_tags=None, with_data=True):
    mt, traits = rng.choice(sc['msgs']) if msgtype is None else [m for m in sc['msgs'] if m[0] == msgtype][0]
    p_opt = rng.choice((0.0, 0.15, 0.5, 0.9, 1.0)) if p_opt is None else p_opt
    h = gen_items(rng, sc, sc['header'], 'h', 0, p_opt * 0.6, with_data=with_data, data_tags=data_tags)
    b = gen_items(rng, sc, traits, 'b', 0, p_opt, with_data=with_data, data_tags=data_tags)
    t = gen_items(rng, sc, sc['trailer'], 't', 0, 0.0)      # 93/89 (Signature) is not an adjacent pair: C06 finding, generated separately
    return mt, h + b + t


def spec_line(cmd, mt, items, rng=None):
    its = list(items)
    if rng is not None:
        rng.shuffle(its)           # insertion order must not matter
    return '%s M=%s %s' % (cmd, hx(mt), ' '.join(i.spec() for i in its))


# ------------------------------------------------------------------------------------------------
# parsing the harness dump  H[..] B[..] T[..]

def parse_dump(s):
    """'H[...] B[...] T[...]' -> dict sec -> (items, unknown) ; items = list of (tag, bytes, elems|None)"""
    pos = [0]

    def items_until(close):
        out, unk = [], b''
        while pos[0] < len(s):
            if s[pos[0]] == ' ':
                pos[0] += 1
                continue
            if s[pos[0]] == close:
                pos[0] += 1
                break
            m = re.compile(r'U([0-9a-f-]+)').match(s, pos[0])
            if m:
                unk = unhx(m.group(1))
                pos[0] = m.end()
                continue
            m = re.compile(r'(\d+)=([0-9a-f]+|-)').match(s, pos[0])
            if not m:
                raise ValueError('bad dump at %d: %r' % (pos[0], s[pos[0]:pos[0] + 40]))
            pos[0] = m.end()
            tag, val, elems = int(m.group(1)), unhx(m.group(2)), None
            if pos[0] < len(s) and s[pos[0]] == '[':
                pos[0] += 1
                elems = []
                while s[pos[0]] == '{':
                    pos[0] += 1
                    e, _ = items_until('}')
                    elems.append(e)
                assert s[pos[0]] == ']'
                pos[0] += 1
            out.append((tag, val, elems))
        return out, unk

    res = {}
    for sec in 'HBT':
        i = s.index(sec + '[', pos[0])
        pos[0] = i + 2
        res[sec] = items_until(']')
    return res


def expected_tree(sc, traits, items):
    """the items of a spec (one section) as (tag, val, elems) sorted by schema position, recursively"""
    pos = {t[0]: t for t in traits}
    out = []
    for it in sorted(items, key=lambda i: pos[i.tag][2]):
        if it.elems is None or not it.elems:
            out.append((it.tag, it.val, None))
        else:
            g = sc['groups'][pos[it.tag][4]]
            out.append((it.tag, it.val, [expected_tree(sc, g, e) for e in it.elems]))
    return out


def kv(out):
    """'a=.. b=..' result line -> dict (values up to next ' key=') ; a trailing 'throw:X' is stored under 'throw'"""
    d = {}
    m = re.search(r'(?:^| )(throw:\w+|abort:\S+|hang|UNMODELLED)$', out)
    if m:
        d['throw'] = m.group(1)
        out = out[:m.start()]
    for m in re.finditer(r'(\w+)=(.*?)(?= \w+=|$)', out):
        d[m.group(1)] = m.group(2)
    return d
