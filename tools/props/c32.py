"""C32 XML configuration parser: theorems Props.C32 + stream `xml` (XmlElement::Factory / find / GetAttr / InplaceXlate /
ParseAttrs of the real runtime/xml.cpp with `noextensions`, ASan+UBSan).

The oracle is the property itself: the generator knows the tree it printed (token `e=<dump>`), the parsed tree must be that
tree; path lookups are re-evaluated on the implementation's own dumped tree by an independent recursive descent."""
import re, html.entities
import vlib, gen_facts

THEOREMS = ['C32_parse_total', 'C32_inbounds', 'C32_xlate_roundtrip', 'C32_xlate_fixpoint', 'C32_class_exact', 'C32_finding_double_decoding',
            'C32_attrs_roundtrip', 'C32_finding_docpath', 'C32_parse_roundtrip', 'C32_depth_limit',
            'C32_find_all', 'C32_find_first', 'C32_find_root_based']
REF = re.compile(rb'&[a-z]{2,}[1-4]*;|&#(x[0-9A-Fa-f]+|[0-9]+);')
KINDS = ('throw:depth', 'throw:unmatched', 'throw:include', 'throw:illegal', 'throw:dup', 'throw:attr?')
MAXDEPTH = 128
ESC = {38: b'&amp;', 60: b'&lt;', 62: b'&gt;', 34: b'&quot;', 39: b'&apos;'}
LATIN = {n: cp for n, cp in html.entities.name2codepoint.items() if 160 <= cp <= 191 and re.fullmatch(r'[a-z]{2,}[1-4]*', n)}
LATIN_BY_CP = {cp: n for n, cp in LATIN.items()}


def hx(b):
    return b.hex() if b else '-'


def unhx(s):
    return b'' if s == '-' else bytes.fromhex(s)


# ------------------------------------------------------------------------------------------------
# trees: dict(tag=bytes, attrs={bytes: bytes}, value=bytes|None, decl=bytes|None, children=[...])

def dump(t):
    a = ','.join('%s=%s' % (hx(k), hx(v)) for k, v in sorted(t['attrs'].items())) or '-'
    return '(%s;%s;%s;%s;%s)' % (hx(t['tag']), a, '~' if t['value'] is None else hx(t['value']),
                                 '~' if t.get('decl') is None else hx(t['decl']), ''.join(dump(c) for c in t['children']))


def undump(s):
    """parse the canonical dump; returns the tree or None"""
    pos = [0]

    def node():
        if s[pos[0]] != '(':
            raise ValueError
        pos[0] += 1
        f = []
        for _ in range(4):
            j = s.index(';', pos[0])
            f.append(s[pos[0]:j])
            pos[0] = j + 1
        ch = []
        while s[pos[0]] == '(':
            ch.append(node())
        if s[pos[0]] != ')':
            raise ValueError
        pos[0] += 1
        attrs = {}
        order = []
        if f[1] != '-':
            for kv in f[1].split(','):
                k, v = kv.split('=')
                attrs[unhx(k)] = unhx(v)
                order.append(unhx(k))
        return dict(tag=unhx(f[0]), attrs=attrs, order=order, value=None if f[2] == '~' else unhx(f[2]),
                    decl=None if f[3] == '~' else unhx(f[3]), children=ch)
    try:
        t = node()
        return t if pos[0] == len(s) else None
    except (ValueError, IndexError):
        return None


def at_path(t, p):
    for i in p:
        if i >= len(t['children']):
            return None
        t = t['children'][i]
    return t


def pstr(p):
    return '.'.join(map(str, p)) if p else 'r'


# ------------------------------------------------------------------------------------------------
# the path-lookup property, independent of the implementation's string handling

def spec_match(t, comps, flt):
    """paths (relative to t) of the elements matched by the components; the first names t itself"""
    if t['tag'] != comps[0]:
        return []
    if len(comps) == 1:
        if flt is not None and t['attrs'].get(flt[0]) != flt[1]:
            return []
        return [()]
    out = []
    for i, c in enumerate(t['children']):
        out += [(i,) + p for p in spec_match(c, comps[1:], flt)]
    return out


def spec_find(root, origin, what, flt):
    cur, base = at_path(root, origin), tuple(origin)
    while what.startswith(b'//'):
        what, cur, base = what[2:], root, ()
    return [base + p for p in spec_match(cur, what.split(b'/'), flt)]


def tags_ok(t, is_root=True):
    if b'/' in t['tag'] or (not is_root and not t['tag']):
        return False
    return all(tags_ok(c, False) for c in t['children'])


# ------------------------------------------------------------------------------------------------
# generator

NAME1 = b'abcdefghijklmnopqrstuvwxyzABCDEFGHIJKLMNOPQRSTUVWXYZ_'
NAMEC = NAME1 + b'0123456789-.:'
ODD_TAG = b'#&;+*()[]{}|~^%$@,`<'          # legal in a tag for this parser
ODD_ATTR = b'#&;+*()[]{}|~^%$@,`<!?'
TAGPOOL = [b'a', b'b', b'c', b'item', b'grp', b'session', b'x1']
ATTRPOOL = [b'id', b'name', b'value', b'v', b'type', b'n']
PRINTABLE = bytes(range(32, 127))


def gen_name(rng, pool, odd):
    if rng.random() < 0.7:
        return rng.choice(pool)
    n = bytes([rng.choice(NAME1)]) + bytes(rng.choice(NAMEC if rng.random() < 0.9 else odd) for _ in range(rng.randrange(0, 7)))
    return n if n not in (b'xi:include', b'docpath') else b'q'


def gen_text(rng, maxlen, allow_blank=False):
    """raw (decoded) printable text"""
    n = rng.randrange(0 if allow_blank else 1, maxlen + 1)
    c = rng.random()
    if c < 0.5:
        alpha = b'abcxyz019 .,-_'
    elif c < 0.8:
        alpha = b'ab1 &<>"\';#x'
    else:
        alpha = PRINTABLE
    return bytes(rng.choice(alpha) for _ in range(n))


def num_ref(rng, c):
    """a numeric character reference for code point c: decimal or hexadecimal (either case), a quarter of them zero-padded
    (`&#060;`, `&#x003c;`: still decimal / hexadecimal, never octal - missed seed C32-4)"""
    pad = rng.random() < 0.25
    k = rng.random()
    if k < 0.5:
        return (b'&#%0*d;' % (rng.choice((3, 4, 6)), c)) if pad else b'&#%d;' % c
    if k < 0.75:
        return (b'&#x%0*X;' % (rng.choice((3, 4)), c)) if pad else b'&#x%X;' % c
    return (b'&#x%0*x;' % (rng.choice((3, 4)), c)) if pad else b'&#x%x;' % c


def write_ref(rng, s, quote=None):
    """one written form of the raw text s: markup characters as entity or numeric references (always), others
    sometimes as numeric / Latin-1 entity references"""
    out = b''
    for c in s:
        must = c in ESC
        r = rng.random()
        if must:
            out += ESC[c] if r < 0.7 else num_ref(rng, c)
        elif c in LATIN_BY_CP and r < 0.7:
            out += b'&' + LATIN_BY_CP[c].encode() + b';'
        elif c in (10, 13) or c >= 127 or r < 0.03:
            out += num_ref(rng, c)
        else:
            out += bytes([c])
    return out


def escape5(s):
    return b''.join(ESC.get(c, bytes([c])) for c in s)


def gen_value(rng, maxlen, allow_dd):
    """(raw, written).  Raw text that still looks like a reference after decoding is the known class; avoided unless allow_dd"""
    for _ in range(50):
        raw = gen_text(rng, maxlen)
        if rng.random() < 0.15:
            raw += bytes(rng.choice([160, 169, 174, 176, 189, 191, 200, 255, 10, 9, 1]) for _ in range(rng.randrange(1, 3)))
        if allow_dd or not REF.search(raw):
            break
    else:
        raw = b'v'
    return raw, (escape5(raw) if all(32 <= c < 127 for c in raw) and rng.random() < 0.5 else write_ref(rng, raw))


def gen_tree(rng, depth, maxd, maxw, allow_dd):
    t = dict(tag=gen_name(rng, TAGPOOL, ODD_TAG), attrs={}, written_attrs=[], value=None, decl=None, children=[], pieces=[])
    for _ in range(rng.choice((0, 0, 1, 1, 2, 3, 5))):
        k = gen_name(rng, ATTRPOOL, ODD_ATTR)
        if k in t['attrs']:
            continue
        raw, wr = gen_value(rng, 12, allow_dd)
        t['attrs'][k] = raw
        t['written_attrs'].append((k, wr))
    if depth < maxd:
        w = rng.choice((0, 1, 2, 3, maxw)) if depth else rng.randrange(1, maxw + 1)
        for _ in range(rng.randrange(0, w + 1) if depth else w):
            t['children'].append(gen_tree(rng, depth + 1, maxd, maxw, allow_dd))
    # text pieces in the gaps before / between / after the children (the parser concatenates them)
    raws = b''
    for g in range(len(t['children']) + 1):
        if rng.random() < (0.35 if g == 0 else 0.08):
            raw, wr = gen_value(rng, 16, allow_dd)
            t['pieces'].append(wr)
            raws += raw
        else:
            t['pieces'].append(b'')
    if raws.strip(b' \t\n\r') and not (not allow_dd and REF.search(raws)):
        t['value'] = raws
    elif raws:
        t['pieces'] = [b''] * len(t['pieces'])
    return t


def render(rng, t, style, depth=0):
    """one concrete document text of the tree.  style: 'tight' (the printer of the theorem) or 'loose' (line ends, comments,
    both quote characters, spaces around '=', <a></a> for empty elements); white space other than line ends is added only where
    the element has no text (it would become part of the text)"""
    loose = style == 'loose'
    s = b'<' + t['tag']
    for k, wr in t['written_attrs']:
        q = b"'" if loose and rng.random() < 0.3 and b"'" not in wr else b'"'
        if loose and rng.random() < 0.5:          # the other quote character may stand for itself
            wr = wr.replace(b'&quot;', b'"') if q == b"'" else wr.replace(b'&apos;', b"'")
        eq = rng.choice((b'=', b' =', b'= ', b' = ')) if loose and rng.random() < 0.2 else b'='
        sep = rng.choice((b' ', b'  ', b'\n ', b'\t', b' \r\n')) if loose and rng.random() < 0.3 else b' '
        s += sep + k + eq + q + wr + q
    nl = (lambda: rng.choice((b'', b'\n', b'\r\n', b'\n\n'))) if loose else (lambda: b'')
    pad = (lambda: rng.choice((b'', b' ', b'   ', b'\t'))) if loose and t['value'] is None else (lambda: b'')
    if t['value'] is None and not t['children'] and not (loose and rng.random() < 0.3):
        return s + (b' />' if loose and rng.random() < 0.3 else b'/>')
    s += b'>'
    for i, p in enumerate(t['pieces']):
        s += p
        if loose and rng.random() < 0.15:
            s += b'<!-- ' + bytes(rng.choice(b'abc <>&;"\'x/!?') for _ in range(rng.randrange(0, 12))) + b' -->'
        if i < len(t['children']):
            s += nl() + pad() + render(rng, t['children'][i], style, depth + 1) + nl() + pad()
    return s + b'</' + t['tag'] + (b' ' if loose and rng.random() < 0.1 else b'') + b'>'


def all_nodes(t, p=()):
    yield p, t
    for i, c in enumerate(t['children']):
        yield from all_nodes(c, p + (i,))


def path_string(root, p):
    tags = [root['tag']]
    t = root
    for i in p:
        t = t['children'][i]
        tags.append(t['tag'])
    return tags


def gen_queries(rng, t, n):
    nodes = list(all_nodes(t))
    qs = []
    for _ in range(n):
        p, nd = rng.choice(nodes)
        tags = path_string(t, p)
        c = rng.random()
        origin = ()
        if c < 0.45:
            what = b'/'.join(tags)
        elif c < 0.65:
            origin = rng.choice(nodes)[0]
            what = b'//' + b'/'.join(tags)
        elif c < 0.8:
            k = rng.randrange(0, len(p) + 1)        # relative: from an ancestor
            origin = p[:k]
            what = b'/'.join(tags[k:])
        elif c < 0.9:
            what = b'/'.join(tags[:-1] + [rng.choice(TAGPOOL)])
        else:
            what = rng.choice((b'/'.join(tags) + b'/', b'/' + b'/'.join(tags), b'', b'/', b'//', b'///' + tags[0], b'/'.join(tags[:1] + tags),
                               b'////' + b'/'.join(tags), tags[0] + b'//' + b'/'.join(tags[1:]),
                               b'/'.join([tags[0][:-1]] + tags[1:]), b'/'.join([tags[0] + b'x'] + tags[1:]), b'/'.join(tags[:-1] + [tags[-1][:-1]])))
        k = v = None
        r = rng.random()
        if r < 0.35 and nd['attrs']:
            k = rng.choice(sorted(nd['attrs']))
            v = nd['attrs'][k] if rng.random() < 0.8 else b'nope'
        elif r < 0.4:
            k, v = rng.choice(ATTRPOOL), b'1'
        qs.append('q:%s:%s:%s:%s' % (pstr(origin), hx(what), '~' if k is None else hx(k), '~' if v is None else hx(v)))
    for _ in range(max(1, n // 3)):
        p, nd = rng.choice(nodes)
        k = rng.choice(sorted(nd['attrs'])) if nd['attrs'] and rng.random() < 0.7 else rng.choice(ATTRPOOL)
        qs.append('g:%s:%s' % (pstr(p), hx(k)))
    return qs


def chain(depth, leaf=b'<z/>'):
    return b''.join(b'<d%d>' % i for i in range(depth)) + leaf + b''.join(b'</d%d>' % i for i in reversed(range(depth)))


def chain_tree(depth):
    t = dict(tag=b'z', attrs={}, value=None, decl=None, children=[])
    for i in reversed(range(depth)):
        t = dict(tag=b'd%d' % i, attrs={}, value=None, decl=None, children=[t])
    return t


def gen_malformed(rng, valid_docs, n):
    out = []
    xmlish = b'<<<>>>//="\'!?-& ;#ab1x[]CDATA\n '
    for i in range(n):
        c = rng.random()
        if c < 0.2:
            d = bytes(rng.randrange(256) for _ in range(rng.choice((0, 1, 2, 5, 30, 300, 4096))))
        elif c < 0.45:
            d = bytes(rng.choice(xmlish) for _ in range(rng.choice((1, 3, 8, 20, 60, 400, 4096))))
        elif c < 0.7:
            v = rng.choice(valid_docs)
            d = v[:rng.randrange(0, len(v) + 1)]                                   # truncation
        elif c < 0.93:
            v = bytearray(rng.choice(valid_docs))
            for _ in range(rng.randrange(1, 4)):                                    # unbalanced / damaged
                if not v:
                    break
                j = rng.randrange(len(v))
                m = rng.random()
                if m < 0.4:
                    del v[j]
                elif m < 0.7:
                    v.insert(j, rng.choice(xmlish))
                else:
                    v[j] = rng.choice(xmlish)
            d = bytes(v)
        else:
            k = rng.choice((127, 128, 129, 130, 200, 1300))
            d = b'<a>' * k + (b'' if rng.random() < 0.5 else b'</a>' * rng.randrange(0, k + 1))
        out.append('doc %s q:r:%s:~:~ q:r:%s:~:~' % (hx(d[:4096]), hx(b'a/a'), hx(b'//a')))
    return out


def gen(rng, thorough):
    lines = []
    valid = []
    ndocs = 6000 if thorough else 170
    for i in range(ndocs):
        allow_dd = rng.random() < 0.04
        maxd = rng.choice((0, 1, 2, 3, 4, 6))
        maxw = rng.choice((1, 2, 3, 6))
        t = gen_tree(rng, 0, maxd, maxw, allow_dd)
        style = 'tight' if rng.random() < 0.4 else 'loose'
        doc = render(rng, t, style)
        if style == 'loose' and rng.random() < 0.3:
            decl = b'xml version="1.0" encoding="ISO-8859-1"'
            doc = b'<?' + decl + b'?>' + rng.choice((b'', b'\n')) + (b'<!-- head -->\n' if rng.random() < 0.5 else b'') + doc + rng.choice((b'', b'\n'))
            t['decl'] = decl
        if len(doc) > 60000:
            continue
        valid.append(doc)
        lines.append('doc %s e=%s %s' % (hx(doc), dump(t), ' '.join(gen_queries(rng, t, 6))))
    for d in ((126, 127, 128, 129, 130, 140) if not thorough else range(120, 140)):
        doc = chain(d)
        lines.append('doc %s e=%s q:r:%s:~:~' % (hx(doc), dump(chain_tree(d)) if d <= MAXDEPTH else 'throw:depth',
                                                 hx(b'/'.join(b'd%d' % i for i in range(d)) + b'/z')))
    # InplaceXlate / ParseAttrs directly
    for i in range(12000 if thorough else 300):
        raw, _ = gen_value(rng, 24, rng.random() < 0.05)
        if any(c == 0 for c in raw):
            continue
        lines.append('xl %s e=%s' % (hx(escape5(raw)), hx(raw)))
    for i in range(3000 if thorough else 80):
        lines.append('xl %s' % hx(bytes(rng.choice(b'&&&#;;xX0123456789abcdefltgampquos\x00 ') for _ in range(rng.randrange(0, 40)))))
    for i in range(6000 if thorough else 200):
        m = {}
        for _ in range(rng.randrange(0, 6)):
            raw, _ = gen_value(rng, 10, False)
            m[gen_name(rng, ATTRPOOL, ODD_ATTR)] = raw
        s = b''.join(b' ' + k + b'="' + escape5(v) + b'"' for k, v in sorted(m.items()))
        lines.append('at %s e=%s' % (hx(s), ','.join('%s=%s' % (hx(k), hx(v)) for k, v in sorted(m.items())) or '-'))
    for i in range(2000 if thorough else 80):
        lines.append('at %s' % hx(bytes(rng.choice(b'ab =="\'\'/ *\\&;lt1') for _ in range(rng.randrange(1, 30)))))
    lines += gen_malformed(rng, valid, 16000 if thorough else 330)
    return lines


# ------------------------------------------------------------------------------------------------
# oracle

def tree_diff(exp, got, where, out):
    """differences between the expected tree and the parsed one: (where, expected value or None if structural)"""
    if exp['tag'] != got['tag']:
        out.append((where + ':tag', None))
    if exp.get('decl') != got.get('decl'):
        out.append((where + ':decl', None))
    if set(exp['attrs']) != set(got['attrs']):
        out.append((where + ':attr-names', None))
    else:
        for k in exp['attrs']:
            if exp['attrs'][k] != got['attrs'][k]:
                out.append((where + ':attr', exp['attrs'][k]))
    if got.get('order') is not None and got['order'] != sorted(got['order']):
        out.append((where + ':attr-order', None))
    if exp['value'] != got['value']:
        out.append((where + ':value', exp['value']))
    if len(exp['children']) != len(got['children']):
        out.append((where + ':child-count', None))
    else:
        for i, (a, b) in enumerate(zip(exp['children'], got['children'])):
            tree_diff(a, b, where + '.' + str(i), out)


def check_queries(tree, toks, results):
    """find / GetAttr results re-evaluated on the implementation's own tree"""
    if len(toks) != len(results):
        return False
    if not tags_ok(tree):
        return None
    for q, r in zip(toks, results):
        w = q.split(':')
        if w[0] == 'q':
            origin = () if w[1] == 'r' else tuple(int(x) for x in w[1].split('.'))
            if at_path(tree, origin) is None:
                if r != 'q=badorigin':
                    return False
                continue
            flt = (unhx(w[3]), unhx(w[4])) if w[3] != '~' and w[4] != '~' else None
            exp = spec_find(tree, origin, unhx(w[2]), flt)
            want = 'q=%s/%d/%s' % (pstr(exp[0]) if exp else 'none', len(exp), ';'.join(pstr(p) for p in exp) or '-')
            if r != want:
                return False
        elif w[0] == 'g':
            origin = () if w[1] == 'r' else tuple(int(x) for x in w[1].split('.'))
            nd = at_path(tree, origin)
            if nd is None:
                if r != 'g=badorigin':
                    return False
                continue
            v = nd['attrs'].get(unhx(w[2]))
            if r != 'g=' + ('~' if v is None else hx(v)):
                return False
    return True


def oracle(line, out):
    w = line.split()
    exp = [x[2:] for x in w if x.startswith('e=')]
    exp = exp[0] if exp else None
    if out.startswith(('abort', 'bad-', 'skipped', 'throw:other', 'throw:std')) or ' abort:' in out:
        return (False, None)
    if w[0] == 'xl':
        if exp is None:
            return (re.fullmatch(r'-|([0-9a-f]{2})+', out) is not None, None)
        return (out == exp, 'double-decoding' if REF.search(unhx(exp)) else None)
    if w[0] == 'at':
        if exp is None:
            return (out.startswith('ok ') or out in KINDS, None)
        if out == 'ok ' + exp:
            return (True, None)
        dd = any(REF.search(unhx(kv.split('=')[1])) for kv in exp.split(',')) if exp != '-' else False
        dp = any(unhx(kv.split('=')[0]) == b'docpath' for kv in exp.split(',')) if exp != '-' else False
        return (False, 'double-decoding' if dd else 'reserved-docpath' if dp else None)
    if w[0] != 'doc':
        return (None, None)
    toks = [x for x in w[2:] if not x.startswith('e=')]
    if exp is None:
        # arbitrary bytes: a tree, null or a parse error
        if out == 'null' or out in KINDS:
            return (True, None)
        o = out.split(' ')
        if o[0] != 'ok' or len(o) < 2:
            return (False, None)
        tree = undump(o[1])
        if tree is None:
            return (False, None)
        return (check_queries(tree, toks, o[2:]) is not False, None)
    if exp.startswith('throw:'):
        return (out == exp, None)
    o = out.split(' ')
    if o[0] != 'ok' or len(o) < 2:
        et = undump(exp)
        dd = et is not None and any(REF.search(v) for _, n in all_nodes(et) for v in list(n['attrs'].values()) + [n['value'] or b''])
        return (False, 'double-decoding' if dd else None)
    got, want = undump(o[1]), undump(exp)
    if got is None or want is None:
        return (False, None)
    diffs = []
    tree_diff(want, got, 'r', diffs)
    if diffs:
        if all(v is not None and REF.search(v) for _, v in diffs):
            return (False, 'double-decoding')
        return (False, None)
    return (check_queries(got, toks, o[2:]) is not False, None)


def compare(line, impl, model):
    """`throw:attr?`: the message of an attribute error was cut at a NUL byte of the attribute name (illegal or duplicate)"""
    return impl == model or (impl == 'throw:attr?' and model in ('throw:illegal', 'throw:dup'))


def stats(lines):
    st = dict(docs_with_expected_tree=0, nodes=0, max_depth=0, max_width=0, same_tag_sibling_docs=0, queries=0, xl=0, at=0, malformed=0, deep=0)
    for l in lines:
        w = l.split()
        e = [x for x in w if x.startswith('e=(')]
        if w[0] == 'doc' and e:
            t = undump(e[0][2:])
            st['docs_with_expected_tree'] += 1
            ns = list(all_nodes(t))
            st['nodes'] += len(ns)
            st['max_depth'] = max(st['max_depth'], max(len(p) for p, _ in ns))
            st['max_width'] = max(st['max_width'], max(len(n['children']) for _, n in ns))
            if any(len({c['tag'] for c in n['children']}) < len(n['children']) for _, n in ns):
                st['same_tag_sibling_docs'] += 1
            st['queries'] += sum(1 for x in w if x.startswith(('q:', 'g:')))
        elif w[0] == 'doc':
            st['malformed'] += 1
        elif w[0] == 'xl':
            st['xl'] += 1
        elif w[0] == 'at':
            st['at'] += 1
    return st


def nontrivial(l):
    w = l.split()
    if w[0] == 'doc':
        return l if len(w[1]) > 12 else None
    return l if len(w[1]) > 4 else None


def run(res, replay=None):
    rng = vlib.rng_for('C32', res.seed)
    errs = gen_facts.generate(['xml_facts'])
    if replay:
        lines = [l.strip() for l in open(replay) if l.strip() and not l.startswith('#')]
    else:
        lines = vlib.corpus_lines('C32') + gen(rng, res.tier == 'thorough')
    res.assumptions += ['XmlElement::flags_ = {noextensions}: no ${ENV} / !{cmd} expansion, no /* */ attribute comments; nocase off; default path delimiter',
                        'documents are read through std::istringstream; no xi:include file is readable (the model raises the include error)',
                        'after a failed extraction at the end of the data the loop body sees the previous value of `c` (formally indeterminate; observed and modelled as the previous byte)',
                        'POSIX regexec on the two reference patterns is modelled by explicit scanners (patterns checked against the source on every run); the entity table and MaxDepth are extracted from the source on every run',
                        'text/attribute values whose decoded form still contains &name; or &#n; are the known finding double-decoding']
    res.cov['rule'] = ('generated trees (depth 0..6, width 0..6, pooled tags so that same-tag siblings are common, 0..5 attributes, text pieces in every gap, markup characters as entity / decimal / hex references, '
                       'Latin-1 entities, control and 8-bit bytes as numeric references) rendered tight (the printer of the theorem) or loose (line ends, comments, both quotes, <?xml?> prolog) with 6+2 lookups each '
                       '(absolute, root-based from a random origin, relative, missing, degenerate paths; attribute filters; GetAttr); chains of depth 126..140; InplaceXlate on escaped and on reference-dense strings; '
                       'ParseAttrs on printed maps and on random attribute text; malformed: random bytes (uniform and markup-heavy, up to 4096), truncations and 1..3 byte damages of valid documents, unclosed chains up to depth 1300. '
                       'distinct by line; non-trivial = document longer than 6 bytes / string longer than 2 bytes')
    res.cov['generated'] = stats(lines)
    r = vlib.decide_stream(res, module='Fix8Model.Props.C32', theorems=THEOREMS, stream='xml', harness_name='xmlh',
                           lines=lines, oracle=oracle, nontrivial=nontrivial, compare=compare,
                           harness_kw=dict(need_lib=True, deps=['runtime/xml.cpp']), extra_obligation_problems=errs)
    if r:
        kinds = {}
        for o in r['impl']:
            k = o.split(' ')[0] if not o.startswith('ok') else 'ok'
            if re.fullmatch(r'-|([0-9a-f]{2})+', k):
                k = 'hex'
            kinds[k] = kinds.get(k, 0) + 1
        res.cov['result_kinds'] = kinds
    if res.tier == 'thorough' and r and not replay:
        # self-mutant of the harness (drops the last child of wide elements): the oracle must notice
        try:
            exe = vlib.build_harness('xmlh', need_lib=True, deps=['runtime/xml.cpp'], extra_flags=['-DVERIF_SELFTEST'])
            sub = [l for l in lines if l.startswith('doc') and ' e=(' in l][:300]
            impl, _ = vlib.run_harness(exe, sub)
            caught = sum(1 for l, o in zip(sub, impl) if oracle(l, o)[0] is False)
            res.cov['selftest_caught'] = caught
            if not caught:
                res.violation('self-mutant of harness/xmlh.cpp (-DVERIF_SELFTEST) was not noticed by the oracle', 'checking machinery suspect: harness self-mutant not detected', no_input=True)
        except vlib.BuildError as e:
            res.violation(str(e)[-1500:], 'harness self-mutant does not build', no_input=True)
