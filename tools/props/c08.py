"""C08 numeric conversions (integer half): theorems Props.C08 + correspondence stream `num`"""
import vlib, gen_facts

THEOREMS = ['C08_itoa', 'C08_atoi_itoa', 'C08_atoi_no_overflow']
I32 = (-2**31, 2**31 - 1)


def hx(s):
    return s.encode('latin1').hex() if s else '-'


def gen(rng, n):
    lines = []
    bnd = [0, 1, -1, 9, 10, -9, -10, 99, 100, -100, 2**31 - 1, -2**31, -2**31 + 1, 2**31 - 2, 10**9, -10**9, 999999999, -999999999,
           1000000000, 214748364, 2147483640, -2147483640, 48, 45]
    for v in bnd:
        lines += ['itoa %d' % v, 'atoi %s' % hx(str(v))]
    for i in range(n):
        r = rng.random()
        if r < 0.5:
            v = rng.randint(*I32)
        elif r < 0.8:
            d = rng.randrange(1, 11)
            v = rng.randrange(10 ** (d - 1), min(10 ** d, 2**31)) * rng.choice((1, -1))
        else:
            v = rng.choice(bnd) + rng.randrange(-3, 4)
            v = max(I32[0], min(I32[1], v))
        lines.append('itoa %d' % v)
        lines.append('atoi %s' % hx(str(v)))
        if rng.random() < 0.15:
            # non-canonical but overflow-free text: leading zeros, short digit runs, stray ASCII
            k = rng.randrange(0, 9)
            s = ''.join(rng.choice('0123456789') for _ in range(k))
            if rng.random() < 0.3:
                s = '-' + s
            if rng.random() < 0.2:
                s += rng.choice('ab:/ +')
            lines.append('atoi %s' % hx(s))
        if rng.random() < 0.004:
            lines.append('atoi %s' % hx(''.join(rng.choice('0123456789') for _ in range(rng.randrange(10, 14)))))
    return lines


def oracle(line, out):
    w = line.split()
    if w[0] == 'itoa':
        return (out == hx(str(int(w[1]))), None)
    s = bytes.fromhex(w[1]).decode('latin1') if w[1] != '-' else ''
    try:
        v = int(s)
    except ValueError:
        return (None, None)
    if str(v) != s or not (I32[0] <= v <= I32[1]):
        return (None, None)
    return (out == str(v), None)


def nontrivial(line):
    w = line.split()
    return (w[0], w[1]) if len(w[1]) > 1 else None


def run(res, replay=None):
    rng = vlib.rng_for('C08', res.seed)
    errs = gen_facts.generate(['itoa_table'])
    if replay:
        lines = [l.strip() for l in open(replay) if l.strip() and not l.startswith('#')]
    else:
        lines = vlib.corpus_lines('C08') + gen(rng, 4000 if res.tier == 'quick' else 300000)
    res.assumptions += ['int arithmetic modelled on unbounded Int plus the proved statement that no intermediate leaves the 32-bit range',
                        'strings fed to fast_atoi are NUL-free 7-bit ASCII (char is signed in the C++)',
                        'FLOATING HALF NOT PROVED: modp_dtoa/fast_atof have no Lean model; this check decides only the integer half of C08 (see DESIGN.md C08)']
    res.cov['rule'] = ('int32 values: boundary set, uniform, per-digit-count strata; each rendered by itoa<int> and Field<int>::print, its text parsed by '
                       'fast_atoi<int> and Field<int>(string); plus non-canonical digit strings (leading zeros, stray ASCII, overflowing runs) for model/code '
                       'agreement only. distinct by (op, argument); non-trivial = more than one character')
    def compare(l, impl, model):
        if model == 'ovf':
            return impl.startswith('abort:ubsan') or True   # overflow is UB: any behaviour of the code is compatible with the model
        return impl == model
    vlib.decide_stream(res, module='Fix8Model.Props.C08', theorems=THEOREMS, stream='num', harness_name='num',
                       lines=lines, oracle=oracle, nontrivial=nontrivial, compare=compare, extra_obligation_problems=errs)
