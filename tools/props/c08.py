"""C08 numeric conversions: theorems Props.C08 + correspondence stream `num`.

Integer half: itoa<int> / fast_atoi<int> against the model (every line compared).
Floating half: modp_dtoa / fast_atof / Field<double>.  The Lean model is in EXACT arithmetic; binary64 is not formalised.
  * a `dtoa`/`rt` line is compared with the model byte for byte only when the single rounding operation of modp_dtoa,
    (value - whole) * pow10_[prec], is exact for that input (decided by the driver in integer arithmetic: flag `x`) and - for `rt` -
    the parse raised no FE_INEXACT in the real code; an `atof` line is compared when the real parse raised no FE_INEXACT;
  * every line is judged by the oracle below, which states the PROPERTY on the exact rational value of the input double
    (fractions.Fraction), independently of the model."""
import math, re, struct
from fractions import Fraction
import vlib, gen_facts

THEOREMS = ['C08_itoa', 'C08_atoi_itoa', 'C08_atoi_no_overflow',
            'C08_dtoa_decimal', 'C08_atof_canon', 'C08_atof_dtoa_decimal', 'C08_dtoa_nearest', 'C08_dtoa_prec_clamp',
            'C08_dtoa_atof_canon', 'C08_dtoa_int_range', 'C08_fixed_tie_carry']
I32 = (-2**31, 2**31 - 1)
THRES = 2**31 - 1
HARNESS_KW = dict(extra_flags=['-fsanitize=float-cast-overflow'], deps=['runtime/modp_numtoa.c'])


def hx(s):
    return s.encode('latin1').hex() if s else '-'


def gen_int(rng, n):
    lines = []
    bnd = [0, 1, -1, 9, 10, -9, -10, 99, 100, -100, 2**31 - 1, -2**31, -2**31 + 1, 2**31 - 2, 10**9, -10**9, 999999999, -999999999,
           1000000000, 214748364, 2147483640, -2147483640, 48, 45]
    for v in bnd:
        lines += ['itoa %d' % v, 'atoi %s' % hx(str(v))]
    for i in range(n):
        r = rng.random()
        if r < 0.5:
            v = rng.randint(*I32)
        elif r < 0.8:
            d = rng.randrange(1, 11)
            v = rng.randrange(10 ** (d - 1), min(10 ** d, 2**31)) * rng.choice((1, -1))
        else:
            v = rng.choice(bnd) + rng.randrange(-3, 4)
            v = max(I32[0], min(I32[1], v))
        lines.append('itoa %d' % v)
        lines.append('atoi %s' % hx(str(v)))
        if rng.random() < 0.15:
            # non-canonical but overflow-free text: leading zeros, short digit runs, stray ASCII
            k = rng.randrange(0, 9)
            s = ''.join(rng.choice('0123456789') for _ in range(k))
            if rng.random() < 0.3:
                s = '-' + s
            if rng.random() < 0.2:
                s += rng.choice('ab:/ +')
            lines.append('atoi %s' % hx(s))
        if rng.random() < 0.004:
            lines.append('atoi %s' % hx(''.join(rng.choice('0123456789') for _ in range(rng.randrange(10, 14)))))
    return lines


def oracle(line, out):
    w = line.split()
    if w[0] == 'dtoa':
        return oracle_dtoa(w[1], int(w[2]), out)
    if w[0] == 'atof':
        return oracle_atof(w[1], out)
    if w[0] == 'rt':
        return oracle_rt(w[1], int(w[2]), out)
    if w[0] == 'itoa':
        return (out == hx(str(int(w[1]))), None)
    s = bytes.fromhex(w[1]).decode('latin1') if w[1] != '-' else ''
    try:
        v = int(s)
    except ValueError:
        return (None, None)
    if str(v) != s or not (I32[0] <= v <= I32[1]):
        return (None, None)
    return (out == str(v), None)


# ------------------------------------------------------------------------------------------------
# floating half

def bits_of(x):
    return struct.pack('>d', x).hex()


def dbl(bits):
    return struct.unpack('>d', bytes.fromhex(bits))[0]


def clamp(prec):
    return 0 if prec < 0 else 9 if prec > 9 else prec


def ulp(q):
    """unit in the last place of the binade of the rational q != 0 (normal range)"""
    q = abs(q)
    e = q.numerator.bit_length() - q.denominator.bit_length()
    if Fraction(2) ** e > q:
        e -= 1
    return Fraction(2) ** (max(e, -1022) - 52)


def canon(k, p, neg):
    """canonical text of k / 10^p: what C08_dtoa_decimal calls canonText"""
    w, f = divmod(k, 10 ** p)
    s = str(w)
    if p:
        fs = ('%0*d' % (p, f)).rstrip('0') or '0'
        s += '.' + fs
    return ('-' if neg else '') + s


DEC = re.compile(r'-?(\d+)(?:\.(\d+))?\Z')


def dec_value(t):
    m = DEC.match(t)
    if not m:
        return None
    v = Fraction(int(m.group(1))) + (Fraction(int(m.group(2)), 10 ** len(m.group(2))) if m.group(2) else 0)
    return -v if t.startswith('-') else v


def dy(parts):
    """harness rendering of a double: `mant exp` -> Fraction (None for nan/inf)"""
    try:
        return Fraction(int(parts[0])) * Fraction(2) ** int(parts[1])
    except (ValueError, IndexError):
        return None


def dtoa_class(x, p):
    """the known-finding classes as exact predicates of the input double x and the clamped precision p"""
    X = abs(Fraction(x))
    if X > THRES:
        return 'dtoa-above-thres-max'
    f = X - (X.numerator // X.denominator)
    t = f * 10 ** p
    tr = Fraction(float(t))            # binary64 rounding of the exact product (Fraction -> float is correctly rounded)
    if tr - (tr.numerator // tr.denominator) == Fraction(1, 2) and tr != t:
        return 'dtoa-double-rounding-near-tie'
    return None


def oracle_dtoa(bits, prec, out):
    x = dbl(bits)
    if x != x or math.isinf(x) or abs(x) >= 2.0 ** 31:
        return (None, None)            # outside the domain of the property (see run(): the behaviour is recorded, not judged)
    p = clamp(prec)
    X = Fraction(x)
    klass = dtoa_class(x, p)
    if out.startswith('abort:'):
        return (False, klass)
    parts = out.split()
    if len(parts) != 4:
        return (False, None)
    try:
        text = bytes.fromhex(parts[0]).decode('latin1')
    except ValueError:
        return (False, None)
    S = abs(X) * 10 ** p
    J = S.numerator // S.denominator
    rem = S - J
    K = J + 1 if rem > Fraction(1, 2) else J if rem < Fraction(1, 2) else (J if J % 2 == 0 else J + 1)   # round half to even (printf)
    # the text is a decimal with at most p fraction digits denoting sign * K / 10^p (how trailing zeros are trimmed is not part of the property:
    # the model comparison, not this oracle, pins the canonical form)
    D = dec_value(text)
    m = DEC.match(text)
    ok = D is not None and len(m.group(2) or '') <= p and abs(D) == Fraction(K, 10 ** p) and (not text.startswith('-') or x < 0)
    if ok and K != 0 and (D < 0) != (x < 0):
        ok = False
    # parsing the text returns the decimal it denotes up to the error of the p+1 binary64 additions of fast_atof; together with the
    # text clause: within half a unit of the last place (+ that error) of x
    b = dy(parts[1:3])
    tol = None
    if D is None or b is None:
        ok = False
    else:
        tol = (p + 2) * ulp(max(abs(D), abs(X), Fraction(1, 2 ** 1000)))
        if abs(b - D) > tol:
            ok = False
    if ok:
        return (True, None)
    if klass == 'dtoa-double-rounding-near-tie':
        # even inside the class the text must be one of the two neighbouring p-digit decimals
        if tol is None or abs(D) not in (Fraction(J, 10 ** p), Fraction(J + 1, 10 ** p)) or len(m.group(2) or '') > p or abs(b - D) > tol:
            return (False, None)
    return (False, klass)


EXP = re.compile(r'[eE][+-]?(\d+)')


def big_exp(t):
    """the decimal exponent fast_atof would use is >= 50: it multiplies by the literal 1E50, which is not 10^50"""
    m = EXP.search(t)
    return bool(m) and min(int(m.group(1)) % 2 ** 32, 308) >= 50


ATOF_PLAIN = re.compile(r'[ \t\n\v\f\r]*([+-]?)(\d+)(?:\.(\d*))?\Z')


def oracle_atof(h, out):
    t = bytes.fromhex(h).decode('latin1') if h != '-' else ''
    m = ATOF_PLAIN.match(t)
    if not m or len(m.group(2)) > 15:
        return (None, None)
    if out.startswith('abort:'):
        return (False, None)
    parts = out.split()
    b = dy(parts[0:2])
    if b is None:
        return (False, None)
    fr = m.group(3) or ''
    D = Fraction(int(m.group(2))) + (Fraction(int(fr), 10 ** len(fr)) if fr else 0)
    if m.group(1) == '-':
        D = -D
    if D == 0:
        return (b == 0, None)
    return (abs(b - D) <= (len(fr) + 2) * ulp(D), None)


def rt_domain(t, p):
    """a FIX decimal with at most p fraction digits, inside the value domain, and short enough for binary64: (p+2) ulp(x) 10^p < 1/2"""
    D = dec_value(t)
    if D is None:
        return None
    m = DEC.match(t)
    if len(m.group(2) or '') > p or abs(D) > THRES or len(m.group(1)) > 15:
        return None
    if D != 0 and not (p + 2) * ulp(D) * 10 ** p < Fraction(1, 2):
        return None
    return D


def oracle_rt(h, prec, out):
    """re-encoding: the text printed for the parsed value denotes the same decimal, and parsing/printing that text again reproduces it byte for byte"""
    t = bytes.fromhex(h).decode('latin1') if h != '-' else ''
    p = clamp(prec)
    D = rt_domain(t, p)
    if D is None:
        return (None, None)
    if out.startswith('abort:'):
        return (False, None)
    parts = out.split()
    try:
        t1 = bytes.fromhex(parts[0]).decode('latin1')
        t2 = bytes.fromhex(parts[1]).decode('latin1')
    except (ValueError, IndexError):
        return (False, None)
    D1 = dec_value(t1)
    return (D1 is not None and D1 == D and len(DEC.match(t1).group(2) or '') <= p and t2 == t1, None)


def nextafter(x, k):
    """the double k steps away from the finite double x in the ordering of bit patterns (same sign)"""
    b = int(bits_of(abs(x)), 16) + k
    b = max(0, min(b, 0x7fefffffffffffff))
    v = dbl('%016x' % b)
    return -v if x < 0 else v


DIRECTED = [(5.0, 2), (12.25, 2), (-0.5, 2), (400.5, 2), (50.0, 2), (0.0, 2), (-0.0, 2), (0.1, 1), (0.7, 1), (0.15, 1), (0.35, 1), (0.45, 1), (0.25, 1), (0.75, 1),
            (0.125, 2), (0.375, 2), (0.625, 2), (0.875, 2), (0.5, 0), (1.5, 0), (2.5, 0), (3.5, 0), (-2.5, 0), (0.995, 2), (0.95, 1), (0.9995, 3), (7.9995, 3),
            (-0.995, 2), (1.995, 2), (0.996, 2), (0.999, 2), (0.9999999996, 9), (-0.001, 2), (-0.004, 2), (1e-10, 9), (5e-324, 9), (0.05, 1), (3.005, 2),
            (2147483647.0, 2), (2147483647.0, 0), (-2147483647.0, 9), (2147483646.5, 0), (2147483646.999, 2), (2147483646.75, 1), (2147483647.5, 2),
            (-2147483647.25, 2), (2147483647.999, 2), (2147483648.0, 2), (-2147483648.0, 0), (4294967296.5, 2), (1e300, 2), (float('inf'), 2),
            (float('-inf'), 2), (float('nan'), 2), (0.1, -3), (0.15, 12), (123456.789, 3), (0.123456789, 9), (1.0 / 512, 9), (1.0 / 1024, 9)]
ATOF_DIRECTED = ['0', '5', '5.0', '12.5', '-0.5', '+2.5', ' 2.5', '\t-7.50', '2.50', '12.25', '0.15', '.5', '5.', '-', '', '.', 'abc', '12abc', '1.5x', '1e2', '1E2',
                 '1.5e1', '15E1', '150E-1', '150.0E-1', '1e', '1e+', '1e-', '1e+2', '2.5E0', '1e22', '1e23', '1e400', '1e-400', '1e4294967297', '1e4294967296',
                 '9007199254740992', '9007199254740993', '123456789012345678', '-0', '-0.0', '--5', '+-5', '1..5', '1.5.5', '2147483647.0', '0.000000001',
                 '00012.5', '1 2', '5e1.5', '2.147484e+09']


def gen_float(rng, n):
    lines = []
    def d(x, p):
        lines.append('dtoa %s %d' % (bits_of(x), p))
    def rt(t, p):
        lines.append('rt %s %d' % (hx(t), p))
    for x, p in DIRECTED:
        d(x, p)
    for t in ATOF_DIRECTED:
        lines.append('atof %s' % hx(t))
        for p in (0, 2, 9):
            rt(t, p)
    for p in range(1, 10):                      # the decimals just below 1 whose scaled fraction is 10^p - 1/2
        for w in (0, 1, 7, 99, 2147483):
            x = float(Fraction(w) + 1 - Fraction(1, 2 * 10 ** p))
            for k in (-1, 0, 1):
                d(nextafter(x, k), p)
    def whole(r):
        c = r.random()
        if c < 0.35:
            return r.randrange(0, 10)
        if c < 0.7:
            return r.randrange(0, 10 ** r.randrange(1, 7))
        if c < 0.95:
            return r.randrange(0, 2 ** 31 - 1)
        return r.choice((2 ** 31 - 2, 2 ** 31 - 3, 999999999, 1000000000, 2 ** 30, 2 ** 24 - 1))
    for i in range(n):
        c = rng.random()
        sgn = rng.choice((1, 1, -1))
        if c < 0.30:
            # dyadic fractions k / 2^m: the scaled fraction is exact in binary64, these lines are compared with the model
            m = rng.randrange(0, 13)
            x = sgn * (whole(rng) + Fraction(rng.randrange(0, 2 ** m), 2 ** m))
            p = rng.randrange(0, 10)
            d(float(x), p)
            if rng.random() < 0.3:
                d(nextafter(float(x), rng.choice((-2, -1, 1, 2))), p)
        elif c < 0.37:
            d(float(sgn * whole(rng)), rng.randrange(-2, 12))
        elif c < 0.62:
            # q-digit decimals printed at p >= q (general doubles: real code + oracle only), and their text round trip
            p = rng.randrange(1, 10)
            q = rng.randrange(1, p + 1)
            k = rng.randrange(0, 10 ** q)
            w = whole(rng)
            if rng.random() < 0.5:
                w = rng.randrange(0, 1000)
            v = Fraction(w) + Fraction(k, 10 ** q)
            d(float(sgn * v), p)
            t = canon(int(v * 10 ** p), p, sgn < 0 and v != 0)
            rt(t, p)
            if rng.random() < 0.3:
                lines.append('atof %s' % hx(t))
            if rng.random() < 0.2:
                d(float(sgn * v), rng.randrange(0, q + 1))       # printed at fewer digits than it has
        elif c < 0.80:
            # within a few ulps of a tie (k + 1/2) / 10^p
            p = rng.randrange(1, 10)
            cw = rng.random()
            w = 0 if cw < 0.4 else rng.randrange(0, 10) if cw < 0.7 else rng.randrange(0, 1000) if cw < 0.9 else whole(rng)
            k = rng.randrange(0, 10 ** p)
            if rng.random() < 0.1:
                k = 10 ** p - 1
            x = float(Fraction(w) + Fraction(2 * k + 1, 2 * 10 ** p))
            d(sgn * nextafter(x, rng.randrange(-2, 3)), p)
        elif c < 0.93:
            # random bit patterns in range
            e = rng.randrange(1023 - 40, 1023 + 31)
            b = (e << 52) | rng.getrandbits(52) | (rng.getrandbits(1) << 63)
            d(dbl('%016x' % b), rng.randrange(0, 10))
        elif c < 0.96:
            # exact-arithmetic texts for fast_atof / the string constructor (compared with the model)
            w = rng.randrange(0, 10 ** rng.randrange(1, 10))
            t = rng.choice(('', ' ', '+', '-', '-', '\t ')) + str(w) + rng.choice(('', '', '.', '.0', '.5', '.50', '.500', '.00')) + \
                rng.choice(('', '', '', 'E1', 'e2', 'E+3', 'E-1', 'e0', 'x', ' 1', 'E', 'e-'))
            lines.append('atof %s' % hx(t))
            rt(t, rng.randrange(0, 10))
        elif c < 0.9985:
            # arbitrary short strings over the alphabet of the parser
            t = ''.join(rng.choice('0123456789.+-eE x') for _ in range(rng.randrange(0, 10)))
            lines.append('atof %s' % hx(t))
            rt(t, rng.randrange(0, 10))
        else:
            x = rng.choice((2147483647.0, 2147483646.0, 2147483647.5, 2147483648.0, 1e10, 1e100))
            d(sgn * nextafter(x, rng.randrange(-3, 4)), rng.randrange(0, 10))
    return lines


def nontrivial(line):
    w = line.split()
    if w[0] in ('dtoa', 'rt'):
        return (w[0], w[1], clamp(int(w[2])))
    return (w[0], w[1]) if len(w[1]) > 1 else None


def run(res, replay=None):
    rng = vlib.rng_for('C08', res.seed)
    errs = gen_facts.generate(['itoa_table', 'dtoa_consts'])
    if replay:
        lines = [l.strip() for l in open(replay) if l.strip() and not l.startswith('#')]
    else:
        lines = vlib.corpus_lines('C08') + gen_int(rng, 2500 if res.tier == 'quick' else 300000) + \
                gen_float(vlib.rng_for('C08f', res.seed), 9000 if res.tier == 'quick' else 250000)
    res.assumptions += ['int arithmetic modelled on unbounded Int plus the proved statement that no intermediate leaves the 32-bit range',
                        'strings fed to fast_atoi / fast_atof are NUL-free 7-bit ASCII (char is signed in the C++; isspace/isdigit/toupper in the C locale)',
                        'FLOATING HALF: the theorems are about a model in EXACT rational arithmetic; binary64 rounding is NOT formalised. The model is tied to modp_dtoa/'
                        'fast_atof/Field<double> only on inputs whose binary64 arithmetic is exact (the product (value-whole)*10^prec is representable; the parse raises no '
                        'FE_INEXACT); on all other doubles the real code is judged by the property oracle alone',
                        'domain of the floating theorems: precision 0..9 after the clamp, |value| <= 2147483647 (= thres_max; above it modp_dtoa uses sprintf("%e") and for '
                        '|value| >= 2^31, +-inf the cast (int)value is undefined behaviour); NaN prints "nan"',
                        'runtime/modp_numtoa.c is compiled into the harness translation unit (as C++, -O1, ASan+UBSan+float-cast-overflow) instead of linking the unsanitized library object']
    res.cov['rule'] = ('int32 values: boundary set, uniform, per-digit-count strata; each rendered by itoa<int> and Field<int>::print, its text parsed by '
                       'fast_atoi<int> and Field<int>(string); plus non-canonical digit strings for model/code agreement only. doubles: directed cases, dyadic fractions k/2^m '
                       '(m<=12) with whole parts up to 2^31-1 and their neighbours, integers, q-digit decimals printed at p>=q and p<q, values within 2 ulps of a tie '
                       '(k+1/2)/10^p, random bit patterns with exponent -40..30, values around thres_max, all at precisions 0..9 (and out-of-range precisions); each printed by '
                       'modp_dtoa and Field<double>::print and parsed back by fast_atof and Field<double>(string); texts: canonical decimals, exact-arithmetic forms with '
                       'sign/space/exponent/trailing bytes, random strings over the parser alphabet. distinct by (op, argument, clamped precision); non-trivial = more than one character')

    stats = dict(dtoa=0, dtoa_exact=0, atof=0, atof_exact=0, rt=0, rt_exact=0, outside_domain=0, outside_domain_aborts=0)

    def compare(l, impl, model):
        w = l.split()
        if w[0] in ('itoa', 'atoi'):
            if model == 'ovf':
                return True   # overflow is UB: any behaviour of the code is compatible with the model
            return impl == model
        iw, mw = impl.split(), model.split()
        if w[0] == 'dtoa':
            stats['dtoa'] += 1
            if model == 'domain':
                stats['outside_domain'] += 1
                stats['outside_domain_aborts'] += impl.startswith('abort:')
                return True   # nonfinite or above thres_max: not modelled
            if mw[-1] != 'x':
                return True   # the binary64 product rounds: real code judged by the oracle only
            stats['dtoa_exact'] += 1
            return len(iw) == 4 and iw[0] == mw[0]
        if w[0] in ('atof', 'rt') and big_exp(bytes.fromhex(w[1]).decode('latin1') if w[1] != '-' else ''):
            return True       # a decimal exponent >= 50 multiplies by the literal 1E50, which is itself not 10^50 (no FE_INEXACT): not exact arithmetic
        if w[0] == 'atof':
            stats['atof'] += 1
            if not iw or iw[-1] != 'x':
                return True   # the real parse rounded somewhere
            stats['atof_exact'] += 1
            return ' '.join(iw[:-1]) == model
        if w[0] == 'rt':
            stats['rt'] += 1
            if model == 'domain' or mw[-1] != 'x' or not iw or iw[-1] != 'x':
                return True
            stats['rt_exact'] += 1
            return iw[0] == mw[0]
        return impl == model

    r = vlib.decide_stream(res, module='Fix8Model.Props.C08', theorems=THEOREMS, stream='num', harness_name='num', harness_kw=HARNESS_KW,
                           lines=lines, oracle=oracle, nontrivial=nontrivial, compare=compare, extra_obligation_problems=errs)
    if r:
        stats['rt_judged_by_oracle'] = sum(1 for l in lines if l.startswith('rt ') and oracle(l, '00 00 x')[0] is not None)
        stats['dtoa_judged_by_oracle'] = sum(1 for l, o in zip(lines, r['impl']) if l.startswith('dtoa ') and oracle(l, o)[0] is not None)
        ub = sorted({o for l, o in zip(lines, r['impl']) if l.startswith('dtoa ') and o.startswith('abort:')})
        if ub:
            res.notes.append('undefined behaviour observed in modp_dtoa on inputs outside the modelled domain (not judged: |value| >= 2^31 or nonfinite is outside the '
                             'property; 2^31-1 < |value| < 2^31 is the known class dtoa-above-thres-max): ' + '; '.join(ub)[:600])
    res.cov['float_stats'] = stats
