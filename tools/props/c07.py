"""C07 checksum: theorem Props.C07 + correspondence stream `chk`"""
import vlib

THEOREMS = ['C07_value', 'C07_reads', 'C07_remainder', 'C07_in_buffer', 'C07_lt', 'C07_split']


def hexs(bs):
    return bytes(bs).hex() if bs else '-'


def gen(rng, n):
    lines = []
    def buf(kind, ln):
        if kind == 0:
            return [rng.randrange(256) for _ in range(ln)]
        if kind == 1:
            return [255] * ln
        if kind == 2:
            return [rng.choice((0x80, 0xff, 0xfe, 0x7f)) for _ in range(ln)]
        if kind == 3:
            return [rng.randrange(32, 127) for _ in range(ln)]
        return [rng.choice((0, 1, 255)) for _ in range(ln)]
    special = [0, 1, 3, 4, 7, 8, 9, 15, 16, 255, 256, 257, 259, 260, 263, 264, 511, 512, 1023, 1024, 1025, 1032,
               2047, 2048, 2049, 2056, 4095, 4096, 4100, 8192, 9000]
    for i in range(n):
        r = rng.random()
        if r < 0.35:
            ln = rng.choice(special) + rng.choice((0, 0, 1, 2, 3, 5))
        elif r < 0.7:
            ln = rng.randrange(0, 600)
        else:
            ln = rng.randrange(600, 9000)
        b = buf(rng.randrange(5), ln)
        m = rng.random()
        if m < 0.3:
            off, l = 0, -1
        elif m < 0.55:
            off, l = rng.randrange(0, ln + 1), -1
        else:
            off = rng.randrange(0, ln + 1)
            l = rng.randrange(0, ln - off + 1)
            if rng.random() < 0.3:
                l = ln - off
        lines.append('chk %s %d %d' % (hexs(b), off, l))
    return lines


def oracle(line, out):
    w = line.split()
    b = bytes.fromhex(w[1]) if w[1] != '-' else b''
    off, l = int(w[2]), int(w[3])
    elen = l if l >= 0 else len(b) - off
    exp = 'v=%d oob=0' % (sum(b[off:off + elen]) % 256)
    return (out == exp, None)


def nontrivial(line):
    w = line.split()
    return (w[1][:64], len(w[1]), w[2], w[3]) if len(w[1]) >= 16 else None


def run(res, replay=None):
    rng = vlib.rng_for('C07', res.seed)
    if replay:
        lines = [l.strip() for l in open(replay) if l.strip() and not l.startswith('#')]
    else:
        lines = vlib.corpus_lines('C07') + gen(rng, 1500 if res.tier == 'quick' else 40000)
    res.assumptions += ['the unaligned uint32_t load is modelled as four byte reads (UBSan alignment check off)',
                        'ASan manual poisoning of everything outside [off, off+elen) detects stray reads at 8-byte shadow granularity on the left, byte granularity on the right',
                        'negative len other than -1 is outside the domain']
    res.cov['rule'] = ('buffers of 0..9000 bytes (random / all 0xFF / high-bit / ASCII / sparse), lengths clustered around multiples of 8, 256, 1024 '
                       'and the flush period, (offset,len) in {none, offset only, both}; non-trivial = buffer of at least 8 bytes; distinct by (prefix,len,off,len)')
    def canon_model(l, o):
        return o
    def compare(l, impl, model):
        if model.endswith('oob=1'):
            return impl.startswith('abort:asan')
        return impl == model
    vlib.decide_stream(res, module='Fix8Model.Props.C07', theorems=THEOREMS, stream='chk', harness_name='chk',
                       lines=lines, oracle=oracle, nontrivial=nontrivial, compare=compare)
