"""C03 codec is memory-safe and total on arbitrary input: theorems Props.C03 + stream `codec` (dec s|p on adversarial bytes, enc of oversized messages) under ASan/UBSan/libstdc++ assertions"""
import re
import vlib, gen_facts
from props import codec_common as cc

THEOREMS = ['C03_no_hang', 'C03_section_total', 'C03_group_total', 'C03_token_in_buffer', 'C03_fixed_token_in_buffer', 'C03_decode_buffers', 'C03_header_buffers', 'C03_data_buffers', 'C03_accepted_longer_than_trailer', 'C03_encode_ladder_is_digit_count', 'C03_encode_preamble_meets_payload', 'C03_encode_lowest_index', 'C03_encode_lowest_index_ok', 'C03_encode_highest_index', 'C03_encode_writes_in_range', 'C03_encode_safe', 'C03_encode_in_buffer', 'C03_encode_range_is_message', 'C03_finding_encode_buffer_overflow']
MAXPAYLOAD = 8192 - 8


def big_message(rng, sc, total):
    """a NewOrderSingle whose string fields add up to about `total` bytes"""
    tags = [58, 1, 11, 55, 48, 22, 65, 107, 100, 109, 76]
    body = [cc.Item('h', 49, b'A'), cc.Item('h', 56, b'B'), cc.Item('h', 34, b'1'), cc.Item('h', 52, b'20130305-10:11:12.000'),
            cc.Item('b', 21, b'1'), cc.Item('b', 54, b'1'), cc.Item('b', 60, b'20130305-10:11:12.000'), cc.Item('b', 40, b'1')]
    k = rng.choice((1, 2, 3, 4, 5, 8, 11))
    per = max(1, total // k)
    items = body + [cc.Item('b', t, bytes(rng.choice(cc.PRINTABLE.replace(b'=', b'')) for _ in range(per))) for t in tags[:k]]
    return b'D', [i for i in {(x.sec, x.tag): x for x in items}.values()]


def gen(rng, sc, n):
    lines, meta = [], {}
    import random
    r0 = random.Random('C03-directed')
    for total in (9000, 20000, 7000):              # the known finding's witnesses (and a fitting message) come first, every run
        mt, items = big_message(r0, sc, total)
        l = cc.spec_line('enc', mt, items, r0)
        lines.append(l)
        meta[l] = ('enc', 'big', cc.payload_len(sc, mt, items))
    for i in range(n):
        mt, items = cc.gen_message(rng, sc, p_opt=rng.choice((0.0, 0.2, 0.6, 1.0)))
        k = rng.choice(cc.MUTATIONS)
        raw, info = cc.mutate(rng, sc, mt, items, k)
        l = 'decn %s %s' % (rng.choice('sp'), cc.hx(raw))
        lines.append(l)
        meta[l] = ('dec', k, None)
    for i in range(max(6, n // 40)):
        total = rng.choice((3000, 6000, 7500, 7800, 7900, 7950, 8000, 8050, 8100, 8300, 9000, 12000, 20000))
        mt, items = big_message(rng, sc, total)
        l = cc.spec_line('enc', mt, items, rng)
        lines.append(l)
        meta[l] = ('enc', 'big', cc.payload_len(sc, mt, items))
    return lines, meta


def make_oracle(sc, meta, stats):
    def oracle(line, out):
        kind = meta.get(line, ('?', '?', None))
        res = 'abort' if out.startswith('abort') else 'hang' if out == 'hang' else 'throw' if out.startswith('throw') or ' throw:' in out else 'ok'
        stats[res] = stats.get(res, 0) + 1
        if out.startswith(('abort', 'skipped')) or out == 'hang':
            if kind[0] == 'enc' and kind[2] is not None and kind[2] > MAXPAYLOAD:
                return (False, 'encode-buffer-overflow')
            return (False, None)
        return (True, None)
    return oracle


def run(res, replay=None):
    rng = vlib.rng_for('C03', res.seed)
    errs = gen_facts.generate(['consts', 'encode_ladder'])
    sc = cc.schema()
    if replay:
        lines = [l.strip() for l in open(replay) if l.strip() and not l.startswith('#')]
        meta = {}
    else:
        lines, meta = gen(rng, sc, 1500 if res.tier == 'quick' else 60000)
        lines = vlib.corpus_lines('C03') + lines
    stats = {}
    res.assumptions += ['memory safety, undefined behaviour and wall time of the real code are OBSERVED (ASan, UBSan without the vptr/alignment checks the library\'s own type punning trips, libstdc++ assertions, per-case timeout), not proved: '
                        'the Lean theorems are about the index arithmetic and termination of the model, which is tied to the code by the same stream',
                        'heap lifetime and the C++ object model are outside the Lean model', 'only FIX42UTEST']
    res.cov['rule'] = ('every mutation kind of the codec generator (long tags 30..2100 digits, values 2046..5000 bytes, missing SOH/=, huge and negative group counts, bad data lengths, truncation at random offsets, NUL bytes, duplicated and '
                       'foreign tags, random byte strings up to 8 KB) through Message::factory in strict and permissive mode, plus encoding of messages of 4..20 KB; verdict = returned or threw (never abort/hang); distinct by line')
    vlib.decide_stream(res, module='Fix8Model.Props.C03', theorems=THEOREMS, stream='codec', harness_name='codec', lines=lines,
                       oracle=make_oracle(sc, meta, stats), nontrivial=lambda l: l,
                       compare=lambda l, a, b: a == b or (b == 'oob' and a.startswith('abort:asan:stack-buffer-overflow')),
                       harness_kw=dict(need_schema=True), extra_obligation_problems=errs)
    res.cov['verdicts'] = stats
    kinds = {}
    for l in lines:
        if l in meta:
            kinds[meta[l][1]] = kinds.get(meta[l][1], 0) + 1
    res.cov['mutation_kinds'] = kinds
