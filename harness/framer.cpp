// C15 harness: the real FIXReader (runtime/connection.cpp, include/fix8/connection.hpp) on the accepted end of a real
// loopback TCP connection; the harness owns the peer end and writes the scripted byte stream in scripted chunks.
//
//   r <hexstream> <chunks>    call FIXReader::read() in a loop on this thread (the loop of FIXReader::execute, pm_thread branch,
//                             re-stated here so that the exception class is visible); every frame is handed to the
//                             recording Session::process override
//   x <hexstream> <chunks>    call the real FIXReader::execute() (pm_thread) on this thread; it hands the frames to
//                             Session::process itself and returns its own status
//   dump                      constants of the reader as compiled (for tools/gen_facts.py)
//   -DVERIF_SELFTEST: self-mutant of this harness (every third recorded frame loses its last byte); the oracle must notice
//
//   <chunks> : `a` (everything in one send) or a comma list of sizes, the last item may be `k*` (repeat k to the end);
//              bytes not covered by the list go out as one last chunk.
//   The writer thread sends chunk i+1 only after the reader has taken every byte of chunk i out of the socket (counted in an
//   interposed recv()), so each recv() really sees exactly the scripted partial data; after the last chunk the write side is
//   shut down (EOF).  If the reader stops early the writer just finishes.
//
//   result:  frames=<n>[:<hex>,<hex>,..] st=<status> used=<bytes the reader took from the socket> | recv=<calls> partial=<short reads>
//   status:  throw:<Class> (r)   ret=<n> (x)   `false*k` prefix if read() returned false k times
//   (the part after `|` is statistics only and is stripped before the comparison)
#include "hcommon.hpp"
#include "openup.hpp"
#include <fix8/f8includes.hpp>
#include "utest_types.hpp"
#include "utest_router.hpp"
#include "utest_classes.hpp"
#include <dlfcn.h>
#include <thread>
#include <atomic>
using namespace FIX8;

// FIXReader's framing members are private by default access (no keyword for openup.hpp to rewrite): reach them through
// explicit template instantiation, where access checking does not apply.  Nothing in /repo changes.
template<typename Tag, typename Tag::type M> struct Rob { friend typename Tag::type get(Tag) { return M; } };
struct ReadTag { typedef bool (FIXReader::*type)(f8String&); friend type get(ReadTag); };
template struct Rob<ReadTag, &FIXReader::read>;
struct BgTag { typedef size_t FIXReader::*type; friend type get(BgTag); };
template struct Rob<BgTag, &FIXReader::_bg_sz>;
template<typename Tag, int V> struct RobI { friend int geti(Tag) { return V; } };
struct MaxTag { friend int geti(MaxTag); };
template struct RobI<MaxTag, FIXReader::_max_msg_len>;
struct ChkTag { friend int geti(ChkTag); };
template struct RobI<ChkTag, FIXReader::_chksum_sz>;

static std::atomic<int> g_rfd(-1);
static std::atomic<unsigned long> g_calls(0), g_partial(0), g_bytes(0);
static std::atomic<bool> g_reader_done(false);
static pthread_mutex_t g_mx = PTHREAD_MUTEX_INITIALIZER;
static pthread_cond_t g_cv = PTHREAD_COND_INITIALIZER;
static void wake_writer() { pthread_mutex_lock(&g_mx); pthread_cond_broadcast(&g_cv); pthread_mutex_unlock(&g_mx); }

extern "C" ssize_t recv(int fd, void *buf, size_t n, int flags)
{
	typedef ssize_t (*rfn)(int, void *, size_t, int);
	static rfn real((rfn)dlsym(RTLD_NEXT, "recv"));
	const ssize_t r(real(fd, buf, n, flags));
	if (fd >= 0 && fd == g_rfd)
	{
		++g_calls;
		if (r > 0)
		{
			g_bytes += r;
			if (static_cast<size_t>(r) < n)
				++g_partial;
			wake_writer();
		}
	}
	return r;
}

class Sess : public Session
{
public:
	std::vector<std::string> _got;
	Sess(const SessionID& sid) : Session(UTEST::ctx(), sid, nullptr, nullptr, nullptr)
	{
		_timer.clear();
		_timer.stop();
		_timer.join();
	}
	bool handle_application(const unsigned, const Message *&) { return true; }
	bool process(const f8String& from)	// what the reader hands on
	{
#ifdef VERIF_SELFTEST
		if (_got.size() % 3 == 1) { _got.push_back(from.substr(0, from.size() - 1)); return true; }	// self-mutant: the oracle must notice
#endif
		_got.push_back(from);
		return true;
	}
};

static bool parse_chunks(const std::string& spec, size_t total, std::vector<size_t>& to)
{
	to.clear();
	if (spec == "a")
	{
		if (total) to.push_back(total);
		return true;
	}
	size_t pos(0), used(0);
	while (pos <= spec.size() && used < total)
	{
		size_t e(spec.find(',', pos));
		if (e == std::string::npos) e = spec.size();
		std::string it(spec.substr(pos, e - pos));
		if (it.empty()) return false;
		bool rep(false);
		if (it[it.size() - 1] == '*') { rep = true; it.erase(it.size() - 1); }
		if (it.empty() || it.find_first_not_of("0123456789") != std::string::npos || it.size() > 6) return false;
		const size_t k(std::stoul(it));
		if (k == 0) return false;
		do
		{
			const size_t n(std::min(k, total - used));
			to.push_back(n);
			used += n;
		}
		while (rep && used < total);
		if (e >= spec.size()) break;
		pos = e + 1;
	}
	if (used < total) to.push_back(total - used);
	return true;
}

static void writer(Poco::Net::StreamSocket *tx, const std::string *stream, const std::vector<size_t> *chunks)
{
	size_t off(0);
	try
	{
		for (size_t i(0); i < chunks->size(); ++i)
		{
			const size_t n((*chunks)[i]);
			size_t done(0);
			while (done < n)
			{
				const int r(tx->sendBytes(stream->data() + off + done, static_cast<int>(n - done)));
				if (r <= 0) throw std::runtime_error("send");
				done += r;
			}
			off += n;
			// let the reader drain this chunk before the next one is put on the wire
			pthread_mutex_lock(&g_mx);
			while (g_bytes < off && !g_reader_done)
			{
				struct timespec ts;
				clock_gettime(CLOCK_REALTIME, &ts);
				ts.tv_nsec += 2000000;
				if (ts.tv_nsec >= 1000000000) { ts.tv_nsec -= 1000000000; ++ts.tv_sec; }
				pthread_cond_timedwait(&g_cv, &g_mx, &ts);
			}
			pthread_mutex_unlock(&g_mx);
		}
	}
	catch (...) {}
	try { tx->shutdownSend(); } catch (...) {}
}

int main(int argc, char **argv)
{
	// the global logger is not the subject here: library threads that log through it allocate from FastFlow's per-thread allocator, whose
	// deregistration at thread exit is occasionally reported by ASan (heap-use-after-free in ff/allocator.hpp) - keep it silent
	FIX8::GlobalLogger::set_levels(FIX8::Logger::Levels(FIX8::Logger::None));
	Sess *sess(new Sess(SessionID(f8String("FIX.4.2"), f8String("A"), f8String("B"))));
	Poco::Net::StreamSocket rx;		// the reader keeps a pointer to this object; a new connection is assigned per case
	FIXReader *reader(new FIXReader(&rx, *sess, pm_thread));	// never started: no thread of its own
	Poco::Net::ServerSocket srv(Poco::Net::SocketAddress("127.0.0.1", 0));

	std::string line;
	while (std::getline(std::cin, line))
	{
		std::vector<std::string> w(split(line));
		std::ostringstream os;
		if (w.size() == 1 && w[0] == "dump")
		{
			os << "beginstr=" << hex(UTEST::ctx()._beginStr) << " bg=" << reader->*get(BgTag()) << " max=" << geti(MaxTag())
				<< " chk=" << geti(ChkTag()) << " tagmax=" << MAX_MSGTYPE_FIELD_LEN << " fldmax=" << FIX8_MAX_FLD_LENGTH;
			out(os.str());
			continue;
		}
		std::string stream;
		std::vector<size_t> chunks;
		if (w.size() != 3 || (w[0] != "r" && w[0] != "x") || !unhex(w[1], stream) || !parse_chunks(w[2], stream.size(), chunks))
		{
			out("bad-op");
			continue;
		}
		Poco::Net::StreamSocket tx;
		tx.connect(srv.address());
		rx = srv.acceptConnection();
		tx.setNoDelay(true);
		sess->_got.clear();
		sess->_state = States::st_continuous;
		g_calls = g_partial = g_bytes = 0;
		g_reader_done = false;
		g_rfd = rx.impl()->sockfd();
		std::thread wt(writer, &tx, &stream, &chunks);

		std::string status;
		unsigned falses(0);
		if (w[0] == "r")
		{
			for (;;)
			{
				f8String msg;
				try
				{
					if ((reader->*get(ReadTag()))(msg))
					{
						if (!sess->process(msg))
							break;
					}
					else if (++falses >= 64)
					{
						status = "stuck";
						break;
					}
				}
				catch (PeerResetConnection&) { status = "throw:PeerResetConnection"; break; }
				catch (InvalidBodyLength&) { status = "throw:InvalidBodyLength"; break; }
				catch (InvalidVersion&) { status = "throw:InvalidVersion"; break; }
				catch (IllegalMessage&) { status = "throw:IllegalMessage"; break; }
				catch (f8Exception&) { status = "throw:f8Exception"; break; }
				catch (Poco::Exception& e) { status = std::string("throw:Poco:") + e.className(); break; }
				catch (std::exception&) { status = "throw:std"; break; }
			}
		}
		else
		{
			f8_thread_cancellation_token tok;
			const int rv(reader->execute(tok));
			std::ostringstream ss;
			ss << "ret=" << rv << (sess->_state == States::st_session_terminated ? ":terminated" : "");
			status = ss.str();
		}
		g_reader_done = true;
		wake_writer();
		wt.join();
		g_rfd = -1;
		const unsigned long used(g_bytes);
		try { rx.close(); } catch (...) {}
		try { tx.close(); } catch (...) {}

		os << "frames=" << sess->_got.size();
		for (size_t i(0); i < sess->_got.size(); ++i)
			os << (i ? ',' : ':') << hex(sess->_got[i]);
		os << " st=";
		if (falses) os << "false*" << falses << ';';
		os << status << " used=" << used << " | recv=" << g_calls << " partial=" << g_partial;
		out(os.str());
	}
	std::fflush(stdout);
	_exit(0);	// the never-started reader and the session are not torn down
}
