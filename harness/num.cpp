// C08 harness: itoa<int> / fast_atoi<int> and the Field<int> wrapper that uses them (integer half);
// modp_dtoa / fast_atof and the Field<double> wrapper (floating half).
// "itoa <dec>" -> hex text ; "atoi <hex>" -> value (UBSan abort on overflow)
// "dtoa <bits> <prec>" -> hex text of modp_dtoa(value, prec) (= Field<double>(value, prec).print), then fast_atof of that text as
//                         "mant exp" (value = mant * 2^exp, mant odd) and x|i = FE_INEXACT clear|raised while parsing
// "atof <hex>"         -> fast_atof(text) (= Field<double>(text).get()) as "mant exp" and x|i
// "rt <hex> <prec>"    -> hex text t1 of Field<double>(text) printed at precision prec, hex text of Field<double>(t1) printed again,
//                         and x|i of the first parse
// runtime/modp_numtoa.c is compiled INTO this translation unit so that it runs under UBSan (+ float-cast-overflow); the library
// object (built without sanitizers) is not linked.
#include "hcommon.hpp"
#include <cfenv>
#include <cmath>
#include <cstdint>
#include <fix8/f8includes.hpp>
extern "C" {
#include "runtime/modp_numtoa.c"
}

// value = mant * 2^exp with mant odd; "0 0" for both zeros
static std::string dyadic(double v)
{
	if (v != v) return "nan";
	if (std::isinf(v)) return v < 0 ? "-inf" : "inf";
	if (v == 0) return "0 0";
	int e;
	const double m(std::frexp(v, &e));             // v = m * 2^e, 0.5 <= |m| < 1
	long long mi(static_cast<long long>(std::ldexp(m, 53)));  // exact: 53 significant bits
	e -= 53;
	while (mi % 2 == 0) { mi /= 2; ++e; }
	std::ostringstream os; os << mi << ' ' << e;
	return os.str();
}

// the parse happens inside this call, so the exception flags bracket exactly the arithmetic of fast_atof
static double __attribute__((noinline)) call_atof(const char *s, bool& exact)
{
	std::feclearexcept(FE_ALL_EXCEPT);
	volatile double r(FIX8::fast_atof(s));
	exact = !std::fetestexcept(FE_INEXACT);
	return r;
}

static bool same_bits(double a, double b) { return std::memcmp(&a, &b, sizeof(double)) == 0 || (a == 0 && b == 0 && false); }

int main()
{
	std::string line;
	while (std::getline(std::cin, line))
	{
		std::vector<std::string> w(split(line));
		if (w.size() == 2 && w[0] == "itoa")
		{
			const int v(static_cast<int>(std::stoll(w[1])));
			char buf[64];
			std::memset(buf, 0x5a, sizeof(buf));
			const size_t n(FIX8::itoa(v, buf, 10));
			// the field class must render the same text
			FIX8::Field<int, 108> fld(v);
			char buf2[64];
			const size_t n2(fld.print(buf2));
			if (n2 != n || std::memcmp(buf, buf2, n))
				{ out("field-print-differs"); continue; }
			out(hex(std::string(buf, n)));
		}
		else if (w.size() == 2 && w[0] == "atoi")
		{
			std::string s;
			if (!unhex(w[1], s)) { out("bad-op"); continue; }
			const int v(FIX8::fast_atoi<int>(s.c_str()));
			FIX8::Field<int, 108> fld(s);
			if (fld.get() != v)
				{ out("field-parse-differs"); continue; }
			std::ostringstream os; os << v; out(os.str());
		}
		else if (w.size() == 3 && w[0] == "dtoa")
		{
			const uint64_t bits(std::strtoull(w[1].c_str(), nullptr, 16));
			double v; std::memcpy(&v, &bits, sizeof(v));
			const int prec(std::atoi(w[2].c_str()));
			char buf[512], buf2[512];
			std::memset(buf, 0x5a, sizeof(buf));
			const size_t n(modp_dtoa(v, buf, prec));
			if (n >= sizeof(buf) || buf[n] != 0 || std::strlen(buf) != n)
				{ out("length-differs"); continue; }
			FIX8::Field<double, 44> fld(v, prec);
			const size_t n2(fld.print(buf2));
			if (n2 != n || std::memcmp(buf, buf2, n))
				{ out("field-print-differs"); continue; }
			bool exact;
			const double b(call_atof(buf, exact));
			FIX8::Field<double, 44> back(std::string(buf, n));
			if (!same_bits(back.get(), b) && !(b != b))
				{ out("field-parse-differs"); continue; }
			out(hex(std::string(buf, n)) + ' ' + dyadic(b) + (exact ? " x" : " i"));
		}
		else if (w.size() == 2 && w[0] == "atof")
		{
			std::string s;
			if (!unhex(w[1], s)) { out("bad-op"); continue; }
			bool exact;
			const double b(call_atof(s.c_str(), exact));
			FIX8::Field<double, 44> fld(s);
			if (!same_bits(fld.get(), b))
				{ out("field-parse-differs"); continue; }
			FIX8::Field<double, 44> fld2(s.c_str());
			if (!same_bits(fld2.get(), b))
				{ out("field-parse-differs"); continue; }
			out(dyadic(b) + (exact ? " x" : " i"));
		}
		else if (w.size() == 3 && w[0] == "rt")
		{
			std::string s;
			if (!unhex(w[1], s)) { out("bad-op"); continue; }
			const int prec(std::atoi(w[2].c_str()));
			bool exact;
			const double b(call_atof(s.c_str(), exact));
			FIX8::Field<double, 44> fld(s);
			if (!same_bits(fld.get(), b))
				{ out("field-parse-differs"); continue; }
			fld.set_precision(prec);
			char buf[512], buf2[512];
			const size_t n(fld.print(buf));
			// once more from the printed text
			FIX8::Field<double, 44> again(std::string(buf, n));
			again.set_precision(prec);
			const size_t n2(again.print(buf2));
			out(hex(std::string(buf, n)) + ' ' + hex(std::string(buf2, n2)) + (exact ? " x" : " i"));
		}
		else out("bad-op");
	}
	return 0;
}
