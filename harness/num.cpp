// C08 harness (integer half): itoa<int> / fast_atoi<int> and the Field<int> wrapper that uses them.
// "itoa <dec>" -> hex text ; "atoi <hex>" -> value (UBSan abort on overflow)
#include "hcommon.hpp"
#include <fix8/f8includes.hpp>

int main()
{
	std::string line;
	while (std::getline(std::cin, line))
	{
		std::vector<std::string> w(split(line));
		if (w.size() == 2 && w[0] == "itoa")
		{
			const int v(static_cast<int>(std::stoll(w[1])));
			char buf[64];
			std::memset(buf, 0x5a, sizeof(buf));
			const size_t n(FIX8::itoa(v, buf, 10));
			// the field class must render the same text
			FIX8::Field<int, 108> fld(v);
			char buf2[64];
			const size_t n2(fld.print(buf2));
			if (n2 != n || std::memcmp(buf, buf2, n))
				{ out("field-print-differs"); continue; }
			out(hex(std::string(buf, n)));
		}
		else if (w.size() == 2 && w[0] == "atoi")
		{
			std::string s;
			if (!unhex(w[1], s)) { out("bad-op"); continue; }
			const int v(FIX8::fast_atoi<int>(s.c_str()));
			FIX8::Field<int, 108> fld(s);
			if (fld.get() != v)
				{ out("field-parse-differs"); continue; }
			std::ostringstream os; os << v; out(os.str());
		}
		else out("bad-op");
	}
	return 0;
}
