// C32 harness: the real XML configuration parser (runtime/xml.cpp) with extensions switched off.
//   doc <hex document> [q:<origin>:<hex what>:<hex atag|~>:<hex aval|~>]... [g:<origin>:<hex name>]...
//        XmlElement::Factory(std::istream&) on an istringstream holding the document; canonical dump of the tree
//        (tag;attrs as stored in the std::map;value;declaration;children in document order), then per query:
//        q: find-first / return value of find-all / elements of find-all (paths of child indices from the root, `r` = root),
//           called on the element at path <origin>;   g: GetAttr(name) on the element at <origin> (cross-checked with HasAttr/FindAttr)
//        -> `ok <dump> <results>` | `null` | `throw:<kind>`
//   a token `e=...` (the generator's expectation, used by the Python oracle) is ignored
//   xl <hex>   InplaceXlate on a copy of the string                           -> hex
//   at <hex>   ParseAttrs on a fresh element, then its attribute map           -> `ok k=v,..` | `throw:<kind>`
// -DVERIF_SELFTEST: self-mutant (drops the last child of every dumped element with more than two children).
#include "hcommon.hpp"
#include <fix8/f8includes.hpp>
using namespace FIX8;

static std::string ohex(const std::string *s) { return s ? hex(*s) : std::string("~"); }

static std::string dump_attrs(const XmlElement& e)
{
	std::string r;
	for (XmlElement::XmlAttrs::const_iterator it(e.abegin()); it != e.aend(); ++it)
		r += (r.empty() ? "" : ",") + hex(it->first) + "=" + hex(it->second);
	return r.empty() ? "-" : r;
}

static void dump(const XmlElement& e, std::string& to)
{
	to += "(" + hex(e.GetTag()) + ";" + dump_attrs(e) + ";" + ohex(e.GetVal()) + ";" + ohex(e.GetDecl()) + ";";
	size_t n(0), total(0);
	for (XmlElement::XmlSet::const_iterator it(e.begin()); it != e.end(); ++it) ++total;
	for (XmlElement::XmlSet::const_iterator it(e.begin()); it != e.end(); ++it, ++n)
	{
#ifdef VERIF_SELFTEST
		if (total > 2 && n + 1 == total) break;
#endif
		dump(**it, to);
	}
	to += ")";
}

static std::string path_of(const XmlElement *e)
{
	std::vector<size_t> idx;
	while (const XmlElement *p = e->GetParent())
	{
		size_t n(0); bool found(false);
		for (XmlElement::XmlSet::const_iterator it(p->begin()); it != p->end(); ++it, ++n)
			if (*it == e) { found = true; break; }
		if (!found) return "?";
		idx.push_back(n);
		e = p;
	}
	if (idx.empty()) return "r";
	std::string r;
	for (size_t i(idx.size()); i-- > 0;) { std::ostringstream os; os << idx[i]; r += (r.empty() ? "" : ".") + os.str(); }
	return r;
}

static const XmlElement *at_path(const XmlElement *root, const std::string& p)
{
	if (p == "r") return root;
	std::istringstream is(p); std::string t; const XmlElement *e(root);
	while (e && std::getline(is, t, '.'))
	{
		const size_t want(std::stoul(t)); size_t n(0); const XmlElement *nx(nullptr);
		for (XmlElement::XmlSet::const_iterator it(e->begin()); it != e->end(); ++it, ++n)
			if (n == want) { nx = *it; break; }
		e = nx;
	}
	return e;
}

static std::vector<std::string> split_colon(const std::string& s)
{
	std::vector<std::string> r; std::string t; std::istringstream is(s);
	while (std::getline(is, t, ':')) r.push_back(t);
	return r;
}

static bool starts(const std::string& s, const char *lit) { return s.compare(0, std::strlen(lit), lit) == 0; }

static std::string kind_of(const std::string& what)
{
	// "<prefix>Error (<line>): <text>" or "<prefix>Error (<line>) attribute '<name>' <text>"; only the fixed text before the first quoted
	// name decides (names may contain anything); what() is a C string: a NUL byte inside a name cuts the message short
	size_t p(what.find("Error ("));
	if (p == std::string::npos) return "throw:other";
	p += 7;
	while (p < what.size() && (isdigit(static_cast<unsigned char>(what[p])) || what[p] == '-')) ++p;
	const std::string rest(what.substr(p));
	if (starts(rest, "): maximum depth exceeded ")) return "throw:depth";
	if (starts(rest, "): unmatched tag '")) return "throw:unmatched";
	if (starts(rest, "): could not process include '")) return "throw:include";
	if (starts(rest, "): invalid xml include specification '")) return "throw:include";
	if (starts(rest, ") attribute '"))
	{
		static const std::string ill("' illegal character defined"), dup("' already defined");
		const std::string tail(rest.substr(0, rest.find(" in inclusion ")));
		if (tail.size() >= ill.size() && tail.compare(tail.size() - ill.size(), ill.size(), ill) == 0) return "throw:illegal";
		if (tail.size() >= dup.size() && tail.compare(tail.size() - dup.size(), dup.size(), dup) == 0) return "throw:dup";
		return "throw:attr?";
	}
	return "throw:other";
}

static std::string run_query(const XmlElement *root, const std::string& q)
{
	const std::vector<std::string> w(split_colon(q));
	if (w.size() == 5 && w[0] == "q")
	{
		std::string what, k, v;
		const bool hask(w[3] != "~"), hasv(w[4] != "~");
		if (!unhex(w[2], what) || (hask && !unhex(w[3], k)) || (hasv && !unhex(w[4], v))) return "q=bad";
		const XmlElement *cur(at_path(root, w[1]));
		if (!cur) return "q=badorigin";
		const std::string *kp(hask && hasv ? &k : nullptr), *vp(hask && hasv ? &v : nullptr);
		const XmlElement *one(cur->find(what, kp, vp));
		XmlElement::XmlSet all;
		const int cnt(cur->find(what, all, kp, vp));
		std::ostringstream os;
		os << "q=" << (one ? path_of(one) : std::string("none")) << '/' << cnt << '/';
		if (all.empty()) os << '-';
		bool first(true);
		for (XmlElement::XmlSet::const_iterator it(all.begin()); it != all.end(); ++it, first = false)
			os << (first ? "" : ";") << path_of(*it);
		return os.str();
	}
	if (w.size() == 3 && w[0] == "g")
	{
		std::string name, val;
		if (!unhex(w[2], name)) return "g=bad";
		const XmlElement *cur(at_path(root, w[1]));
		if (!cur) return "g=badorigin";
		const bool got(cur->GetAttr(name, val));
		const std::string viaFind(cur->FindAttr(name, std::string("\x01none")));
		if (got != cur->HasAttr(name)) return "g=inconsistent-HasAttr";
		// FindAttr<std::string> extracts the first white-space separated word of the value
		if (!got && viaFind != "\x01none") return "g=inconsistent-FindAttr";
		return "g=" + (got ? hex(val) : std::string("~"));
	}
	return "bad-query";
}

int main()
{
	XmlElement::XmlFlags fl;
	fl.set(XmlElement::noextensions);
	XmlElement::set_flags(fl);
	std::string line;
	while (std::getline(std::cin, line))
	{
		const std::vector<std::string> w(split(line));
		std::string s;
		if (w.size() >= 2 && w[0] == "doc" && unhex(w[1], s))
		{
			std::string res;
			XmlElement *root(nullptr);
			try
			{
				std::istringstream is(s);
				root = XmlElement::Factory(is);
				if (!root) res = "null";
				else
				{
					res = "ok ";
					dump(*root, res);
					for (size_t i(2); i < w.size(); ++i) if (w[i].compare(0, 2, "e=") != 0) res += " " + run_query(root, w[i]);
				}
			}
			catch (XMLError& e) { res = kind_of(e.what()); }
			catch (std::exception& e) { res = std::string("throw:std:") + typeid(e).name(); }
			delete root;
			out(res);
		}
		else if (w.size() >= 2 && (w[0] == "xl" || w[0] == "at") && unhex(w[1], s))
		{
			std::string res;
			XmlElement *el(nullptr);
			try
			{
				std::istringstream is("<x/>");
				el = XmlElement::Factory(is);
				if (w[0] == "xl")
				{
					std::string copy(s);
					res = hex(el->InplaceXlate(copy));
				}
				else
				{
					if (!s.empty()) el->ParseAttrs(s);
					res = "ok " + dump_attrs(*el);
				}
			}
			catch (XMLError& e) { res = kind_of(e.what()); }
			catch (std::exception& e) { res = std::string("throw:std:") + typeid(e).name(); }
			delete el;
			out(res);
		}
		else out("bad-op");
	}
	std::fflush(stdout);
	_exit(0);
}
