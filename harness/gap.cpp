// C20 harness: a REAL FIX8::Session (initiator, FIX42UTEST schema, ClientConnection over loopback TCP, pm_coro, timer thread
// stopped, virtual clock) against a scripted FIX-CONFORMANT counterparty that lives in this file.  The counterparty
//   - numbers everything it sends consecutively and keeps a log (application message + ClOrdID / administrative, SendingTime);
//   - answers a ResendRequest [b,e] (e = 0: to infinity) by re-sending every application message of the range with its original
//     MsgSeqNum, PossDupFlag=Y and OrigSendingTime, and ONE SequenceReset-GapFill per run of administrative messages;
//     with `trailing` it closes the answer with a gap fill that burns one fresh number (what fix8's own replay does);
//   - answers the session's Logon with a Logon carrying its next number.
// It builds real FIX frames; every frame is handed to Session::process and, independently, decoded with the real
// Message::factory and printed as an abstract record.  Outbound frames of the session are captured at the send() call.
//
//   new <mem|file> <enforce 0|1> <trailing 0|1>   fresh persister, empty counterparty log, clock reset, no session yet
//   connect                    destroy session + connection (if any), new Session over the same persister (file: files reopened),
//                              start() -> Logon; the counterparty's Logon reply is processed
//   lose <k>                   the counterparty sends k (a<ClOrdID> = NewOrderSingle, h = Heartbeat); it never arrives
//   peer <k> [<k> ...]         the counterparty sends the first k, which arrives; the further ones are in flight (written before it
//                              reads the session's reaction) and arrive next; then it answers every ResendRequest raised so far
//   sess <pid>                 the session's application sends NewOrderSingle(ClOrdID=pid)
//   tick <ms>                  the virtual clock advances
// Result line:  <micro> / <micro> ... || <summary> pns=<counterparty's next number> un=<ResendRequests never answered>
//   micro   = abs{<independent decode of the inbound frame>} <events> | <summary after it>     or   call <events> | <summary>
//   events  = adm{raw} dlv{raw, decoded} out{decoded outbound frame}
//   summary = | st=<state> ns=<next send> nr=<next receive> ctrl=<a,b|none> sd=<shutdown>      or   | nosession
#include "hcommon.hpp"
#include "openup.hpp"
#include "vclock.hpp"
#include <fix8/f8includes.hpp>
#include "utest_types.hpp"
#include "utest_router.hpp"
#include "utest_classes.hpp"
#include <dirent.h>
#include <sys/stat.h>
#include <sys/socket.h>
#include <netinet/in.h>
#include <arpa/inet.h>
using namespace FIX8;

static const long long T0_MS = 1600000000000LL;	// 2020-09-13T12:26:40Z
static const char SOH('\001');
static Poco::Net::StreamSocket *g_sock(nullptr);
static std::vector<std::string> g_events;		// events of the current micro step
static std::vector<std::pair<unsigned, unsigned> > g_rr;	// ResendRequests seen in the current micro step

static std::string fld(const MessageBase *mb, unsigned short tag)
{
	if (!mb) return "-";
	const BaseField *bf(mb->get_field(tag));
	if (!bf) return "-";
	std::ostringstream os; bf->print(os);
	return os.str().empty() ? "-" : os.str();
}
static std::string ts_ms(const std::string& t)
{
	if (t == "-") return "-";
	struct tm tmv; std::memset(&tmv, 0, sizeof(tmv));
	int ms(0);
	if (std::sscanf(t.c_str(), "%4d%2d%2d-%2d:%2d:%2d.%3d", &tmv.tm_year, &tmv.tm_mon, &tmv.tm_mday, &tmv.tm_hour, &tmv.tm_min, &tmv.tm_sec, &ms) < 6)
		return "?";
	tmv.tm_year -= 1900; tmv.tm_mon -= 1;
	std::ostringstream os; os << ((long long)timegm(&tmv) * 1000LL + ms);
	return os.str();
}
static std::string absrec(const Message *m)
{
	std::ostringstream os;
	const MessageBase *h(m->Header());
	std::string pd(fld(h, 43)), gf(fld(m, 123));
	os << "t=" << m->get_msgtype() << ",seq=" << fld(h, 34) << ",pd=" << (pd == "Y" ? "1" : pd == "N" ? "0" : pd)
		<< ",st=" << ts_ms(fld(h, 52)) << ",ost=" << ts_ms(fld(h, 122)) << ",snd=" << fld(h, 49) << ",tgt=" << fld(h, 56)
		<< ",new=" << fld(m, 36) << ",gf=" << (gf == "Y" ? "1" : gf == "N" ? "0" : gf) << ",b=" << fld(m, 7) << ",e=" << fld(m, 16)
		<< ",ref=" << fld(m, 45) << ",trq=" << fld(m, 112) << ",pid=" << fld(m, 11) << ",adm=" << (m->is_admin() ? 1 : 0);
	return os.str();
}
static std::string absraw(const std::string& raw, bool outbound)
{
	Message *m(nullptr);
	std::string r;
	try
	{
		m = Message::factory(UTEST::ctx(), raw, false, false);
		if (!m) return "dec=null";
		r = "dec=ok," + absrec(m);
		if (outbound && m->get_msgtype() == "2")
			g_rr.push_back(std::make_pair(unsigned(std::strtoul(fld(m, 7).c_str(), nullptr, 10)), unsigned(std::strtoul(fld(m, 16).c_str(), nullptr, 10))));
	}
	catch (f8Exception& e) { r = std::string("dec=throw,fl=") + (e.force_logoff() ? "1" : "0"); }
	catch (std::exception& e) { r = "dec=stdexc"; }
	delete m;
	return r;
}
static void cut_frames(const std::string& data, std::vector<std::string>& to)
{
	size_t pos(0);
	while (pos < data.size())
	{
		const size_t p9(data.find("\0019=", pos));
		if (p9 == std::string::npos) { to.push_back(data.substr(pos)); return; }
		const size_t pe(data.find('\001', p9 + 3));
		if (pe == std::string::npos) { to.push_back(data.substr(pos)); return; }
		const unsigned long len(std::strtoul(data.substr(p9 + 3, pe - p9 - 3).c_str(), nullptr, 10));
		const size_t end(pe + 1 + len + 7);
		if (end > data.size()) { to.push_back(data.substr(pos)); return; }
		to.push_back(data.substr(pos, end - pos));
		pos = end;
	}
}
extern "C" ssize_t send(int fd, const void *buf, size_t n, int flags)
{
	typedef ssize_t (*sfn)(int, const void *, size_t, int);
	static sfn real((sfn)dlsym(RTLD_NEXT, "send"));
	if (fd >= 0 && g_sock && fd == g_sock->impl()->sockfd())
	{
		std::vector<std::string> frames;
		cut_frames(std::string(static_cast<const char *>(buf), n), frames);
		for (size_t i(0); i < frames.size(); ++i)
			g_events.push_back("out{" + absraw(frames[i], true) + ",hex=" + hex(frames[i]) + "}");
		return n;	// the other end never reads: nothing is put on the wire
	}
	return real(fd, buf, n, flags);
}

class HSess : public Session
{
public:
	HSess(const SessionID& sid, Persister *p) : Session(UTEST::ctx(), sid, p, nullptr, nullptr)
	{
		_timer.clear(); _timer.stop(); _timer.join();
	}
	bool handle_admin(const unsigned seqnum, const Message *msg)
	{
		std::ostringstream os; os << "adm{raw=" << seqnum << '}'; g_events.push_back(os.str());
		return true;
	}
	// the pattern of every sample application: enforce(...) || deliver
	bool handle_application(const unsigned seqnum, const Message *&msg)
	{
		if (enforce(seqnum, msg))
			return true;
		std::ostringstream os; os << "dlv{raw=" << seqnum << ',' << absrec(msg) << '}'; g_events.push_back(os.str());
		return true;
	}
};

static std::string g_dir;
static void rmtree(const std::string& d)
{
	DIR *dp(opendir(d.c_str()));
	if (!dp) return;
	while (dirent *e = readdir(dp))
	{
		const std::string n(e->d_name);
		if (n == "." || n == "..") continue;
		::unlink((d + "/" + n).c_str());
	}
	closedir(dp);
}

//---------------------------------------------------------------------------------------------------- the counterparty
static std::string stamp(long long ms)
{
	const time_t s(ms / 1000);
	struct tm tmv; gmtime_r(&s, &tmv);
	char buf[64];
	std::snprintf(buf, sizeof(buf), "%04d%02d%02d-%02d:%02d:%02d.%03d", tmv.tm_year + 1900, tmv.tm_mon + 1, tmv.tm_mday,
		tmv.tm_hour, tmv.tm_min, tmv.tm_sec, int(ms % 1000));
	return buf;
}
static std::string num(unsigned long v) { std::ostringstream os; os << v; return os.str(); }
static std::string mkframe(const std::string& body)	// body = everything after 9=..| up to and excluding 10=
{
	std::ostringstream os;
	os << "8=FIX.4.2" << SOH << "9=" << body.size() << SOH << body;
	const std::string pre(os.str());
	unsigned sum(0);
	for (size_t i(0); i < pre.size(); ++i) sum += (unsigned char)pre[i];
	char chk[16]; std::snprintf(chk, sizeof(chk), "10=%03u", sum % 256);
	return pre + chk + SOH;
}
static std::string f(const char *tag, const std::string& v) { return std::string(tag) + "=" + v + SOH; }

struct Entry { bool app; std::string pid; long long st; };
struct Peer
{
	bool trailing;
	std::vector<Entry> log;
	long long now;	// ms since the epoch
	Peer() : trailing(false), now(T0_MS) {}
	unsigned ns() const { return unsigned(log.size()) + 1; }
	std::string head(const char *t, unsigned seq, bool pd, long long ost) const
	{
		std::string h(f("35", t) + f("49", "SRV") + f("56", "CLI") + f("34", num(seq)));
		if (pd) h += f("43", "Y");
		h += f("52", stamp(now));
		if (pd) h += f("122", stamp(ost));
		return h;
	}
	std::string order(unsigned seq, const std::string& pid, bool pd, long long ost) const
	{
		return mkframe(head("D", seq, pd, ost) + f("11", pid) + f("21", "1") + f("55", "OC") + f("54", "1") + f("60", stamp(T0_MS)) + f("38", "50") + f("40", "1"));
	}
	std::string fill(unsigned seq, unsigned nw) const { return mkframe(head("4", seq, true, now) + f("123", "Y") + f("36", num(nw))); }
	std::string emit(const std::string& k)
	{
		const unsigned seq(ns());
		if (k[0] == 'a')
		{
			const Entry e = { true, k.substr(1), now }; log.push_back(e);
			return order(seq, k.substr(1), false, 0);
		}
		const Entry e = { false, "", now }; log.push_back(e);
		return mkframe(head("0", seq, false, 0));
	}
	std::string logon()
	{
		const unsigned seq(ns());
		const Entry e = { false, "", now }; log.push_back(e);
		return mkframe(head("A", seq, false, 0) + f("98", "0") + f("108", "30"));
	}
	// the answer to ResendRequest [b, e]
	void answer(unsigned b, unsigned e, std::vector<std::string>& to)
	{
		const unsigned last(ns() - 1), hi(e == 0 || e >= ns() ? last : e);
		unsigned open(0);	// first number of the run of administrative messages being collected (0: none)
		if (b != 0)
		{
			unsigned k(b);
			for (; k <= hi; ++k)
			{
				const Entry& en(log[k - 1]);
				if (en.app)
				{
					if (open) { to.push_back(fill(open, k)); open = 0; }
					to.push_back(order(k, en.pid, true, en.st));
				}
				else if (!open)
					open = k;
			}
			if (open) to.push_back(fill(open, k));
		}
		if (trailing && hi == last)
		{
			const unsigned seq(ns());
			const Entry en = { false, "", now }; log.push_back(en);
			to.push_back(fill(seq, seq + 1));
		}
	}
};

//---------------------------------------------------------------------------------------------------- the world
struct World
{
	int lfd, afd; unsigned short port;
	Persister *per; std::string pkind; bool enforce;
	HSess *sess; ClientConnection *conn; Poco::Net::StreamSocket *sock;
	Peer peer; unsigned unanswered;
	std::vector<std::string> micros;
	World() : lfd(-1), afd(-1), port(0), per(nullptr), enforce(true), sess(nullptr), conn(nullptr), sock(nullptr), unanswered(0) {}

	void listen_on()
	{
		lfd = ::socket(AF_INET, SOCK_STREAM, 0);
		sockaddr_in a; std::memset(&a, 0, sizeof(a)); a.sin_family = AF_INET; a.sin_addr.s_addr = htonl(INADDR_LOOPBACK); a.sin_port = 0;
		::bind(lfd, (sockaddr *)&a, sizeof(a)); ::listen(lfd, 4);
		socklen_t l(sizeof(a)); ::getsockname(lfd, (sockaddr *)&a, &l); port = ntohs(a.sin_port);
	}
	void drop_session()
	{
		g_sock = nullptr;
		if (sess && !sess->is_shutdown()) sess->stop();
		delete conn; conn = nullptr;
		delete sess; sess = nullptr;
		delete sock; sock = nullptr;
		if (afd >= 0) { ::close(afd); afd = -1; }
	}
	void open_store(bool fresh)
	{
		if (pkind == "mem") { if (fresh || !per) { delete per; per = new MemoryPersister; } return; }
		delete per; per = nullptr;
		FilePersister *fp(new FilePersister(0));
		fp->initialise(g_dir, "gap.db", fresh);
		per = fp;
	}
	bool start()
	{
		sess = new HSess(SessionID(f8String("FIX.4.2"), f8String("CLI"), f8String("SRV")), per);
		LoginParameters lp(1, 1, default_appl_ver_id(), 1, false, false, false, false, false, false, enforce);
		sess->set_login_parameters(lp);
		sock = new Poco::Net::StreamSocket;
		Poco::Net::SocketAddress addr("127.0.0.1", port);
		conn = new ClientConnection(sock, addr, *sess, 30, pm_coro, true);
		g_sock = sock;
		const bool ok(sess->start(conn, false, 0, 0) == 0);
		if (ok) afd = ::accept(lfd, nullptr, nullptr);
		return ok;
	}
	std::string summary()
	{
		std::ostringstream os;
		if (!sess) return "| nosession";
		os << "| st=" << Session::_state_names[sess->_state] << " ns=" << unsigned(sess->_next_send_seq) << " nr=" << unsigned(sess->_next_receive_seq);
		unsigned a(0), b(0);
		if (per && per->get(a, b)) os << " ctrl=" << a << ',' << b; else os << " ctrl=none";
		os << " sd=" << (sess->is_shutdown() ? 1 : 0);
		return os.str();
	}
	void close_micro(const std::string& head)
	{
		std::ostringstream os;
		os << head << ' ';
		for (size_t i(0); i < g_events.size(); ++i) os << g_events[i] << ' ';
		os << summary();
		micros.push_back(os.str());
		g_events.clear();
	}
	// one frame of the counterparty reaches the session; ResendRequests raised are appended to `rr`
	void feed(const std::string& raw, std::vector<std::pair<unsigned, unsigned> > *rr)
	{
		g_events.clear(); g_rr.clear();
		const std::string head("abs{" + absraw(raw, false) + "}");
		if (sess && !sess->is_shutdown())
		{
			try { sess->process(raw); }
			catch (f8Exception& e) { g_events.push_back(std::string("throw:f8Exception:fl=") + (e.force_logoff() ? "1" : "0")); }
			catch (std::exception& e) { g_events.push_back("throw:std"); }
		}
		if (rr) rr->insert(rr->end(), g_rr.begin(), g_rr.end());
		else unanswered += unsigned(g_rr.size());
		close_micro(head);
	}
};

static Message *mk_order(const std::string& pid)
{
	UTEST::NewOrderSingle *nos(new UTEST::NewOrderSingle);
	*nos << new UTEST::TransactTime(Tickval(true))
		  << new UTEST::OrderQty(50)
		  << new UTEST::ClOrdID(pid)
		  << new UTEST::HandlInst(UTEST::HandlInst_AUTOMATED_EXECUTION_ORDER_PRIVATE_NO_BROKER_INTERVENTION)
		  << new UTEST::OrdType(UTEST::OrdType_MARKET)
		  << new UTEST::Side(UTEST::Side_BUY)
		  << new UTEST::Symbol("OC");
	return nos;
}

static bool kind_ok(const std::string& k) { return k == "h" || (k.size() > 1 && k[0] == 'a' && k.find_first_not_of("0123456789", 1) == std::string::npos); }

int main()
{
	// the global logger is not the subject here: library threads that log through it allocate from FastFlow's per-thread allocator, whose
	// deregistration at thread exit is occasionally reported by ASan (heap-use-after-free in ff/allocator.hpp) - keep it silent
	FIX8::GlobalLogger::set_levels(FIX8::Logger::Levels(FIX8::Logger::None));
	vclock::skip_sleeps = true;
	vclock::set(T0_MS * 1000000LL);
	g_dir = scratch_dir("gap");
	World w;
	w.listen_on();
	bool have(false);
	std::string line;
	while (std::getline(std::cin, line))
	{
		std::vector<std::string> a(split(line));
		g_events.clear(); w.micros.clear();
		try
		{
			if (a.empty()) { out("bad-op"); continue; }
			if (a[0] == "new" && a.size() == 4 && (a[1] == "mem" || a[1] == "file"))
			{
				w.drop_session();
				rmtree(g_dir);
				vclock::set(T0_MS * 1000000LL);
				w.pkind = a[1]; w.enforce = a[2] == "1";
				w.open_store(true);
				w.peer = Peer(); w.peer.trailing = a[3] == "1";
				w.unanswered = 0;
				have = true;
			}
			else if (!have) { out("no-world"); continue; }
			else if (a[0] == "tick" && a.size() == 2)
			{
				w.peer.now += std::stoll(a[1]);
				vclock::set(w.peer.now * 1000000LL);
			}
			else if (a[0] == "connect" && a.size() == 1)
			{
				w.drop_session();
				w.open_store(false);
				g_events.clear();
				if (!w.start()) g_events.push_back("start-failed");
				w.close_micro("call");
				w.feed(w.peer.logon(), nullptr);
			}
			else if (a[0] == "lose" && a.size() == 2 && kind_ok(a[1])) { w.peer.emit(a[1]); }
			else if (a[0] == "peer" && a.size() >= 2)
			{
				bool ok(true);
				for (size_t i(1); i < a.size(); ++i) ok = ok && kind_ok(a[i]);
				if (!ok) { out("bad-op"); continue; }
				std::vector<std::pair<unsigned, unsigned> > rr;
				// everything the counterparty writes before it reads: the frame and those in flight
				std::vector<std::string> frames;
				for (size_t i(1); i < a.size(); ++i) frames.push_back(w.peer.emit(a[i]));
				for (size_t i(0); i < frames.size(); ++i) w.feed(frames[i], &rr);
				for (size_t i(0); i < rr.size(); ++i)
				{
					std::vector<std::string> ans;
					w.peer.answer(rr[i].first, rr[i].second, ans);
					for (size_t j(0); j < ans.size(); ++j) w.feed(ans[j], nullptr);
				}
			}
			else if (a[0] == "sess" && a.size() == 2)
			{
				g_events.clear();
				if (w.sess && !w.sess->is_shutdown())
					w.sess->send(mk_order(a[1]), true, 0, false);
				w.close_micro("call");
			}
			else { out("bad-op"); continue; }
		}
		catch (f8Exception& e) { w.micros.push_back(std::string("throw:f8Exception:fl=") + (e.force_logoff() ? "1" : "0")); }
		catch (std::exception& e) { w.micros.push_back("throw:std"); }
		std::ostringstream os;
		for (size_t i(0); i < w.micros.size(); ++i) os << w.micros[i] << " / ";
		os << "|| " << w.summary() << " pns=" << w.peer.ns() << " un=" << w.unanswered;
		out(os.str());
	}
	std::fflush(stdout);
	rmtree(g_dir); ::rmdir(g_dir.c_str());
	_exit(0);
}
