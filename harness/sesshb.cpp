// C22 / C23 harness: a REAL FIX8::Session (FIX42UTEST schema) over a loopback TCP connection whose other end is owned
// by the harness.  The timer thread is stopped; supervision ticks, inbound frames and sends are issued by the script at
// scripted virtual times (vclock.hpp interposes clock_gettime).  One scenario per line, one result line per scenario.
//
//   sid <b1> <s1> <t1> <b2> <s2> <t2>                     (hex, "-" = empty)  SessionID comparisons
//        -> eq=<a==b> ne=<a!=b> req=<b==a> rne=<b!=a> seq=<a==a> sne=<a!=a>
//   lg <role I|A> <enforce 0|1> <ownS> <ownT> <clients|-> <reqS> <reqR> <recS,recR|e|-> <sched 0|1|2> <auth 0|1> <hb0>
//      <rsn 0|1> <silent 0|1> <frame>;<frame>...
//        clients = <hexid>:<ip 0|1|2>,...  (ip 0 = any, 1 = 127.0.0.1 = the peer, 2 = 10.1.2.3)
//        frame   = <seq>,<sender hex|~>,<target hex|~>,<hbi|~>,<reset -|Y|N>,<pd 0|1|2|3>      an inbound Logon
//        -> <segment> / <segment> ...   first segment: after start(); then one per frame that was processed
//   hb <role I|A> <H> <hb0> <silent 0|1> <t0 ns> <ev>;<ev>...      times are ns offsets from BASE, absolute, non-decreasing
//        ev = T<t> tick | R<t>,<kind 0|1|D|5>[,<hexid>] inbound (in sequence, right CompIDs) | S<t> outbound application send
//        -> <segment after logon> / <segment per event>
//   segment = <frame>|<frame>... st=<state> ns=<next send> nr=<next receive> sd=<shutdown> hb=<interval>,<interval20pc> pc=<control record|-|x = no persister>
//   frame   = <35>:34=..:49=<hex>:56=<hex>[:108=..][:141=..][:112=<hex>][:45=..][:58=<text class>][:43=..]
#include "hcommon.hpp"
#include <Poco/Net/StreamSocketImpl.h>
#include "openup.hpp"
#include "vclock.hpp"
#include <fix8/f8includes.hpp>
#include "utest_types.hpp"
#include "utest_router.hpp"
#include "utest_classes.hpp"
#include <poll.h>
#include <map>
using namespace FIX8;

static const long long BASE(1600000000LL * 1000000000LL);	// 2020-09-13T12:26:40Z, the protocol's time origin
static const char SOH('\001');
static bool g_auth(true);

static const char *state_name(States::SessionStates st)
{
	switch (st)
	{
	case States::st_none: return "none";
	case States::st_continuous: return "continuous";
	case States::st_session_terminated: return "session_terminated";
	case States::st_wait_for_logon: return "wait_for_logon";
	case States::st_not_logged_in: return "not_logged_in";
	case States::st_logon_sent: return "logon_sent";
	case States::st_logon_received: return "logon_received";
	case States::st_logoff_sent: return "logoff_sent";
	case States::st_logoff_received: return "logoff_received";
	case States::st_test_request_sent: return "test_request_sent";
	case States::st_sequence_reset_sent: return "sequence_reset_sent";
	case States::st_sequence_reset_received: return "sequence_reset_received";
	case States::st_resend_request_sent: return "resend_request_sent";
	case States::st_resend_request_received: return "resend_request_received";
	default: return "?";
	}
}

class HSess : public Session
{
	UTEST::utest_Router _router;
public:
	HSess(const F8MetaCntx& ctx, const SessionID& sid, Persister *p) : Session(ctx, sid, p, 0, 0) { halt(); }
	HSess(const F8MetaCntx& ctx, const sender_comp_id& sci, Persister *p) : Session(ctx, sci, p, 0, 0) { halt(); }
	void halt() { _timer.clear(); _timer.stop(); _timer.join(); }
	bool handle_application(const unsigned seqnum, const Message *&msg) { return enforce(seqnum, msg) || msg->process(_router); }
	bool authenticate(SessionID& id, const Message *msg) { return g_auth; }
	bool tick() { return heartbeat_service(); }
};

//-------------------------------------------------------------------------------------------------
static std::string stamp(long long ns)
{
	const time_t s(ns / 1000000000LL);
	struct tm tmv; gmtime_r(&s, &tmv);
	char buf[64];
	std::snprintf(buf, sizeof(buf), "%04d%02d%02d-%02d:%02d:%02d.%03d", tmv.tm_year + 1900, tmv.tm_mon + 1, tmv.tm_mday,
		tmv.tm_hour, tmv.tm_min, tmv.tm_sec, int(ns % 1000000000LL / 1000000));
	return buf;
}
static std::string frame(const std::string& body)	// body = everything after 9=..| up to and excluding 10=
{
	std::ostringstream os;
	os << "8=FIX.4.2" << SOH << "9=" << body.size() << SOH << body;
	const std::string pre(os.str());
	unsigned sum(0);
	for (size_t i(0); i < pre.size(); ++i) sum += (unsigned char)pre[i];
	char chk[16]; std::snprintf(chk, sizeof(chk), "10=%03u", sum % 256);
	return pre + chk + SOH;
}
static std::string fld(const char *tag, const std::string& v) { return std::string(tag) + "=" + v + SOH; }
static std::string num(long long v) { std::ostringstream os; os << v; return os.str(); }

static std::string text_class(const std::string& t)
{
	static const char *pre[][2] = { { "Invalid Sequence number", "seqhi" }, { "Message Sequence too low", "seqlo" }, { "Bad Sending Time", "badtime" },
		{ "Already logged on", "already" }, { "Remote has ignored", "ignored" }, { "Invalid CompId", "compid" } };
	for (unsigned i(0); i < sizeof(pre) / sizeof(*pre); ++i)
		if (t.compare(0, std::strlen(pre[i][0]), pre[i][0]) == 0) return pre[i][1];
	return "other";
}

// one scenario's plumbing: listener, session, connection, peer fd
struct Rig
{
	int lfd, pfd, sfd;
	unsigned short port;
	HSess *ss;
	Connection *conn;
	Poco::Net::StreamSocket *sock;
	Persister *per;
	bool acceptor;
	std::string pending;	// bytes read from the peer fd not yet split into frames

	Rig() : lfd(-1), pfd(-1), sfd(-1), port(0), ss(0), conn(0), sock(0), per(0), acceptor(false)
	{
		lfd = ::socket(AF_INET, SOCK_STREAM, 0);
		int one(1); ::setsockopt(lfd, SOL_SOCKET, SO_REUSEADDR, &one, sizeof(one));
		sockaddr_in a; std::memset(&a, 0, sizeof(a)); a.sin_family = AF_INET; a.sin_addr.s_addr = htonl(INADDR_LOOPBACK); a.sin_port = 0;
		if (::bind(lfd, (sockaddr *)&a, sizeof(a)) || ::listen(lfd, 4)) { std::perror("listen"); _exit(3); }
		socklen_t len(sizeof(a)); ::getsockname(lfd, (sockaddr *)&a, &len); port = ntohs(a.sin_port);
	}
	Poco::Net::SocketAddress addr() const { return Poco::Net::SocketAddress("127.0.0.1", port); }
	void initiator(const SessionID& sid, unsigned hb, Persister *p)
	{
		per = p; ss = new HSess(UTEST::ctx(), sid, p);
		sock = new Poco::Net::StreamSocket;
		Poco::Net::SocketAddress ad(addr());
		conn = new ClientConnection(sock, ad, *ss, hb, pm_thread);
	}
	void accept_peer() { pfd = ::accept(lfd, 0, 0); sfd = sock->impl()->sockfd(); }
	void acceptor_(const std::string& sci, unsigned hb, Persister *p)
	{
		acceptor = true;
		per = p; ss = new HSess(UTEST::ctx(), sender_comp_id(sci), p);
		pfd = ::socket(AF_INET, SOCK_STREAM, 0);
		sockaddr_in a; std::memset(&a, 0, sizeof(a)); a.sin_family = AF_INET; a.sin_addr.s_addr = htonl(INADDR_LOOPBACK); a.sin_port = htons(port);
		if (::connect(pfd, (sockaddr *)&a, sizeof(a))) { std::perror("connect"); _exit(3); }
		const int fd(::accept(lfd, 0, 0));
		sock = new Poco::Net::StreamSocket(new Poco::Net::StreamSocketImpl(fd));
		Poco::Net::SocketAddress ad(addr());
		conn = new ServerConnection(sock, ad, *ss, hb, pm_thread);
		sfd = fd;
	}
	// everything the session wrote since the last call: a marker byte is pushed through the session's own socket so that
	// the read does not depend on delivery latency
	std::vector<std::string> drain()
	{
		const char mark('\002');
		const bool marked(::send(sfd, &mark, 1, MSG_NOSIGNAL) == 1);
		for (;;)
		{
			pollfd pf; pf.fd = pfd; pf.events = POLLIN; pf.revents = 0;
			const int pr(::poll(&pf, 1, marked ? 5000 : 200));
			if (pr <= 0) break;
			char buf[16384];
			const ssize_t n(::recv(pfd, buf, sizeof(buf), MSG_DONTWAIT));
			if (n <= 0) break;
			pending.append(buf, n);
			if (marked && pending.find(mark) != std::string::npos) break;
		}
		std::vector<std::string> frames;
		std::string clean;
		for (size_t i(0); i < pending.size(); ++i) if (pending[i] != mark) clean += pending[i];
		pending.clear();
		size_t pos(0);
		for (;;)
		{
			const size_t c(clean.find(std::string(1, SOH) + "10=", pos));
			if (c == std::string::npos) break;
			const size_t e(clean.find(SOH, c + 1));
			if (e == std::string::npos) break;
			frames.push_back(clean.substr(pos, e + 1 - pos));
			pos = e + 1;
		}
		pending = clean.substr(pos);
		return frames;
	}
	std::string segment()
	{
		std::ostringstream os;
		const std::vector<std::string> fr(drain());
		for (size_t i(0); i < fr.size(); ++i)
		{
			std::map<int, std::string> m;
			std::istringstream is(fr[i]); std::string kv;
			while (std::getline(is, kv, SOH))
			{
				const size_t eq(kv.find('='));
				if (eq != std::string::npos) m[std::atoi(kv.substr(0, eq).c_str())] = kv.substr(eq + 1);
			}
			os << (i ? "|" : "") << m[35] << ":34=" << m[34] << ":49=" << hex(m[49]) << ":56=" << hex(m[56]);
			if (m.count(108)) os << ":108=" << m[108];
			if (m.count(141)) os << ":141=" << m[141];
			if (m.count(112)) os << ":112=" << hex(m[112]);
			if (m.count(45)) os << ":45=" << m[45];
			if (m.count(58)) os << ":58=" << text_class(m[58]);
			if (m.count(43)) os << ":43=" << m[43];
		}
		if (fr.empty()) os << "-";
		os << " st=" << state_name(ss->_state) << " ns=" << ss->_next_send_seq
			<< " nr=" << ss->_next_receive_seq << " sd=" << (ss->_control.has(Session::shutdown) ? 1 : 0)
			<< " hb=" << conn->get_hb_interval() << ',' << conn->get_hb_interval20pc() << " pc=";
		unsigned ca(0), cb(0);
		if (!ss->_persist) os << 'x';
		else if (!ss->_persist->get(ca, cb)) os << '-';
		else os << ca << ',' << cb;
		return os.str();
	}
	~Rig()
	{
		if (ss) ss->stop();
		delete conn;		// stops reader/writer, detaches from the session
		const bool acc(acceptor);
		delete ss;			// an acceptor session deletes its persister
		if (!acc) delete per;
		delete sock;
		if (pfd >= 0) ::close(pfd);
		if (lfd >= 0) ::close(lfd);
	}
};

static bool dehex(const std::string& h, std::string& to, bool& absent)
{
	absent = h == "~";
	if (absent) { to.clear(); return true; }
	return unhex(h, to);
}

//-------------------------------------------------------------------------------------------------
static std::string do_sid(const std::vector<std::string>& w)
{
	std::string v[6];
	for (int i(0); i < 6; ++i) if (!unhex(w[1 + i], v[i])) return "bad-op";
	SessionID a(v[0], v[1], v[2]), b(v[3], v[4], v[5]);
	std::ostringstream os;
	os << "eq=" << (a == b) << " ne=" << (a != b) << " req=" << (b == a) << " rne=" << (b != a) << " seq=" << (a == a) << " sne=" << (a != a);
	return os.str();
}

static std::string do_lg(const std::vector<std::string>& w)
{
	if (w.size() != 15) return "bad-op";
	const bool acc(w[1] == "A");
	std::string ownS, ownT;
	if (!unhex(w[3], ownS) || !unhex(w[4], ownT)) return "bad-op";
	Clients clients;
	if (w[5] != "-")
	{
		std::istringstream is(w[5]); std::string it;
		while (std::getline(is, it, ','))
		{
			const size_t c(it.find(':'));
			std::string id;
			if (c == std::string::npos || !unhex(it.substr(0, c), id)) return "bad-op";
			const int ip(std::atoi(it.substr(c + 1).c_str()));
			clients.insert({ id, Client(id + "-name", ip == 0 ? Poco::Net::IPAddress() : Poco::Net::IPAddress(ip == 1 ? "127.0.0.1" : "10.1.2.3")) });
		}
	}
	const unsigned reqS(std::stoul(w[6])), reqR(std::stoul(w[7]));
	const int sched(std::atoi(w[9].c_str()));
	g_auth = w[10] == "1";
	const unsigned hb0(std::stoul(w[11]));
	const bool rsn(w[12] == "1"), silent(w[13] == "1");
	const long long t0(BASE + 1000 * 1000000000LL);	// 12:43:20 on the day of BASE
	vclock::set(t0);

	MemoryPersister *per(0);
	if (w[8] == "e")
		per = new MemoryPersister;	// a persister without control record
	else if (w[8] != "-")
	{
		const size_t c(w[8].find(','));
		per = new MemoryPersister;
		per->put(unsigned(std::stoul(w[8].substr(0, c))), unsigned(std::stoul(w[8].substr(c + 1))));
	}
	Schedule sch;
	if (sched)
	{
		// daily window; 1: contains the scenario's time of day, 2: does not
		const long long tod(t0 % Tickval::day);
		sch = sched == 1 ? Schedule(Tickval(Tickval::ticks(tod - Tickval::hour)), Tickval(Tickval::ticks(tod + Tickval::hour)))
							  : Schedule(Tickval(Tickval::ticks(tod + Tickval::hour)), Tickval(Tickval::ticks(tod + 2 * Tickval::hour)));
	}
	LoginParameters lp(5000, 1, default_appl_ver_id(), 10, rsn, false, silent, false, false, false, w[2] == "1", 0, 0, hb0, sch, clients);

	Rig rig;
	if (acc) rig.acceptor_(ownS, hb0, per);
	else rig.initiator(SessionID("FIX.4.2", ownS, ownT), hb0, per);
	rig.ss->set_login_parameters(lp);
	if (rig.ss->start(rig.conn, false, reqS, reqR)) return "start-failed";
	if (!acc) rig.accept_peer();
	std::string res(rig.segment());

	std::istringstream is(w[14]); std::string f;
	while (std::getline(is, f, ';'))
	{
		if (rig.ss->is_shutdown()) break;
		std::vector<std::string> p; { std::istringstream fs(f); std::string x; while (std::getline(fs, x, ',')) p.push_back(x); }
		if (p.size() != 6) return "bad-op";
		std::string snd, tgt; bool nos, notg;
		if (!dehex(p[1], snd, nos) || !dehex(p[2], tgt, notg)) return "bad-op";
		const long long now(vclock::get());
		std::string body(fld("35", "A") + fld("34", p[0]));
		if (!nos) body += fld("49", snd);
		if (!notg) body += fld("56", tgt);
		body += fld("52", stamp(now));
		if (p[5] == "1" || p[5] == "2") body += fld("43", "Y") + fld("122", stamp(p[5] == "1" ? now - 5000000000LL : now + 5000000000LL));
		if (p[5] == "3") body += fld("43", "N");
		body += fld("98", "0");
		if (p[3] != "~") body += fld("108", p[3]);
		if (p[4] != "-") body += fld("141", p[4]);
		rig.ss->update_received();	// what FIXReader::read does before handing the frame to process()
		bool threw(false);
		try { rig.ss->process(frame(body)); }
		catch (std::exception& e) { threw = true; }
		res += " / " + rig.segment() + (threw ? " threw" : "");
	}
	return res;
}

static std::string do_hb(const std::vector<std::string>& w)
{
	if (w.size() != 7) return "bad-op";
	const bool acc(w[1] == "A");
	const unsigned H(std::stoul(w[2])), hb0(std::stoul(w[3]));
	const bool silent(w[4] == "1");
	const long long t0(std::stoll(w[5]));
	vclock::set(BASE + t0);
	g_auth = true;
	LoginParameters lp(5000, 1, default_appl_ver_id(), 10, false, false, silent, false, false, false, true, 0, 0, acc ? hb0 : H);
	const std::string me(acc ? "SRV" : "CLI"), you(acc ? "CLI" : "SRV");
	Rig rig;
	if (acc) rig.acceptor_(me, hb0, 0);
	else rig.initiator(SessionID("FIX.4.2", me, you), H, 0);
	rig.ss->set_login_parameters(lp);
	if (rig.ss->start(rig.conn, false)) return "start-failed";
	if (!acc) rig.accept_peer();
	rig.ss->update_received();
	rig.ss->process(frame(fld("35", "A") + fld("34", "1") + fld("49", you) + fld("56", me) + fld("52", stamp(vclock::get())) + fld("98", "0") + fld("108", num(H))));
	std::string res(rig.segment());

	std::istringstream is(w[6]); std::string ev;
	unsigned clord(0);
	while (std::getline(is, ev, ';'))
	{
		if (ev.empty()) continue;
		std::vector<std::string> p; { std::istringstream fs(ev.substr(1)); std::string x; while (std::getline(fs, x, ',')) p.push_back(x); }
		if (p.empty()) return "bad-op";
		const long long t(std::stoll(p[0]));
		vclock::set(BASE + t);
		if (ev[0] == 'T')
			rig.ss->tick();
		else if (rig.ss->is_shutdown())
			;	// the reader has been stopped and the connection is gone: no inbound frame, no application send
		else if (ev[0] == 'S')
		{
			UTEST::NewOrderSingle *nos(new UTEST::NewOrderSingle);
			*nos << new UTEST::ClOrdID("ord" + num(++clord)) << new UTEST::HandlInst('1') << new UTEST::Symbol("BHP") << new UTEST::Side('1')
				  << new UTEST::TransactTime << new UTEST::OrdType('1') << new UTEST::OrderQty(100);
			rig.ss->send(nos);
		}
		else if (ev[0] == 'R' && p.size() >= 2)
		{
			std::string id;
			if (p.size() >= 3 && !unhex(p[2], id)) return "bad-op";
			// G: an application message three numbers AHEAD of the expected one (a gap: ResendRequest in the continuous state)
			const bool gap(p[1] == "G");
			std::string body(fld("35", gap ? std::string("D") : p[1]) + fld("34", num(unsigned(rig.ss->_next_receive_seq) + (gap ? 3 : 0))) + fld("49", you) + fld("56", me) + fld("52", stamp(BASE + t)));
			if (p[1] == "0" || p[1] == "1") { if (p.size() >= 3) body += fld("112", id); }
			else if (p[1] == "D" || gap)
				body += fld("11", "c" + num(++clord)) + fld("21", "1") + fld("55", "BHP") + fld("54", "1") + fld("60", stamp(BASE + t)) + fld("38", "100") + fld("40", "1");
			else if (p[1] != "5") return "bad-op";
			rig.ss->update_received();
			try { rig.ss->process(frame(body)); } catch (std::exception&) { res += " threw"; }
		}
		else return "bad-op";
		res += " / " + rig.segment();
	}
	return res;
}

int main()
{
	// sleeps of the main thread (stop(): 250 ms, ~Session: 1 s) are skipped; a service thread that wants to sleep (the timer
	// thread between construction and halt()) really waits 1 ms instead of spinning
	static const pthread_t main_thread(pthread_self());
	vclock::sleep_hook = [](long long, bool) { if (!pthread_equal(pthread_self(), main_thread)) ::poll(0, 0, 1); };
	// the global logger is not the subject here: with it on, the session's reader thread and the main thread both push into its
	// single-producer FastFlow queue (a race that ASan occasionally reports in uSWSR_Ptr_Buffer::pop); silence it
	GlobalLogger::set_levels(Logger::Levels(Logger::None));
	std::string line;
	while (std::getline(std::cin, line))
	{
		const std::vector<std::string> w(split(line));
		std::string r;
		try
		{
			if (w.size() == 7 && w[0] == "sid") r = do_sid(w);
			else if (!w.empty() && w[0] == "lg") r = do_lg(w);
			else if (!w.empty() && w[0] == "hb") r = do_hb(w);
			else r = "bad-op";
		}
		catch (std::exception& e) { r = std::string("throw:") + typeid(e).name(); }
		out(r);
	}
	std::fflush(stdout);
	_exit(0);
}
