// harness-only virtual time: interposes the libc calls behind Tickval / std::chrono clocks and behind
// every hypersleep<> (clock_nanosleep; nanosleep as fallback) in THIS executable.  Nothing in /repo changes.
//   vclock::set(ns)      from now on CLOCK_REALTIME (what f8_clock::now() reads) reports `ns` since the epoch
//   vclock::off()        back to the real clock
//   vclock::sleep_hook   if set, called instead of sleeping (argument: requested wake-up/sleep in ns, absolute flag);
//                        if not set and vclock::skip_sleeps is true, sleeps return at once
// Include in exactly one translation unit of the harness and link with -ldl.
#ifndef VERIF_VCLOCK_HPP
#define VERIF_VCLOCK_HPP
#include <ctime>
#include <dlfcn.h>
#include <atomic>
#include <functional>
#include <sys/time.h>

namespace vclock {
static std::atomic<long long> g_ns(-1);
static std::atomic<bool> skip_sleeps(false);
static std::atomic<unsigned long> sleeps_seen(0), clock_reads(0);
static std::function<void(long long, bool)> sleep_hook;
inline void set(long long ns) { g_ns = ns; }
inline void advance(long long ns) { g_ns += ns; }
inline long long get() { return g_ns; }
inline void off() { g_ns = -1; }
}

extern "C" int clock_gettime(clockid_t id, struct timespec *ts)
{
	typedef int (*fn)(clockid_t, struct timespec *);
	static fn real((fn)dlsym(RTLD_NEXT, "clock_gettime"));
	const long long v(vclock::g_ns);
	if (v >= 0 && (id == CLOCK_REALTIME || id == CLOCK_MONOTONIC))
	{
		++vclock::clock_reads;
		ts->tv_sec = v / 1000000000LL; ts->tv_nsec = v % 1000000000LL;
		return 0;
	}
	return real(id, ts);
}

extern "C" time_t time(time_t *t)
{
	struct timespec ts; clock_gettime(CLOCK_REALTIME, &ts);
	if (t) *t = ts.tv_sec;
	return ts.tv_sec;
}

extern "C" int gettimeofday(struct timeval *tv, void *)
{
	struct timespec ts; clock_gettime(CLOCK_REALTIME, &ts);
	if (tv) { tv->tv_sec = ts.tv_sec; tv->tv_usec = ts.tv_nsec / 1000; }
	return 0;
}

extern "C" int clock_nanosleep(clockid_t id, int flags, const struct timespec *req, struct timespec *rem)
{
	typedef int (*fn)(clockid_t, int, const struct timespec *, struct timespec *);
	static fn real((fn)dlsym(RTLD_NEXT, "clock_nanosleep"));
	++vclock::sleeps_seen;
	if (vclock::sleep_hook) { vclock::sleep_hook(req->tv_sec * 1000000000LL + req->tv_nsec, flags == TIMER_ABSTIME); return 0; }
	if (vclock::skip_sleeps) return 0;
	return real(id, flags, req, rem);
}

extern "C" int nanosleep(const struct timespec *req, struct timespec *rem)
{
	typedef int (*fn)(const struct timespec *, struct timespec *);
	static fn real((fn)dlsym(RTLD_NEXT, "nanosleep"));
	++vclock::sleeps_seen;
	if (vclock::sleep_hook) { vclock::sleep_hook(req->tv_sec * 1000000000LL + req->tv_nsec, false); return 0; }
	if (vclock::skip_sleeps) return 0;
	return real(req, rem);
}
#endif
