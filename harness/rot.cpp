// C29 harness: FileLogger::rotate and the purge rotation of FilePersister::initialise on real directories.
//   log <rotnum> <append 0|1> <force 0|1> <gens|-> <others|->       construct a FileLogger (its ctor rotates), optionally rotate(true), list the directory
//   purge <rotnum> <gens of data chain|-> <gens of index chain|-> <others|->   FilePersister(rotnum).initialise(dir, "st", purge=true), list
// listing: sorted `g<family>.<k>=<content id>` / `o<i>=<content id>` / `?<name>` ; content id 0 = empty file
#include "hcommon.hpp"
#include <fix8/f8includes.hpp>
#include <dirent.h>
#include <sys/stat.h>
#include <unistd.h>
#include <set>
using namespace FIX8;

static std::vector<unsigned> nums(const std::string& s)
{
	std::vector<unsigned> r;
	if (s == "-") return r;
	std::istringstream is(s); std::string t;
	while (std::getline(is, t, ',')) r.push_back(std::stoul(t));
	return r;
}
static void put_file(const std::string& p, unsigned long id)
{
	FILE *f(std::fopen(p.c_str(), "w")); std::fprintf(f, "%lu", id); std::fclose(f);
}
static const char *other_sfx[] = { "x", ".bak", ".1.old", "/../other.log", ".01", ".-1", ".1x", ".idx.1" };
static const unsigned n_other(sizeof(other_sfx) / sizeof(*other_sfx));
static std::string other_name(const std::string& base, unsigned i)
{
	return i == 3 ? std::string("other.log") : base + other_sfx[i % n_other];
}
static bool canon_num(const std::string& s, unsigned long& v)
{
	if (s.empty() || s.size() > 9 || s[0] == '0') return false;
	for (size_t i(0); i < s.size(); ++i) if (s[i] < '0' || s[i] > '9') return false;
	v = std::stoul(s); return true;
}
static std::string classify(const std::string& n, const std::string& base, bool two)
{
	std::ostringstream os; unsigned long k;
	if (n == base) return "g0.0";
	if (two && n == base + ".idx") return "g1.0";
	for (unsigned i(0); i < n_other; ++i) if (n == other_name(base, i)) { os << 'o' << i; return os.str(); }
	if (n.compare(0, base.size() + 1, base + ".") == 0)
	{
		std::string rest(n.substr(base.size() + 1));
		if (canon_num(rest, k)) { os << "g0." << k; return os.str(); }
		if (two && rest.size() > 4 && rest.compare(rest.size() - 4, 4, ".idx") == 0 && canon_num(rest.substr(0, rest.size() - 4), k)) { os << "g1." << k; return os.str(); }
	}
	return "?" + n;
}
static std::string listing(const std::string& dir, const std::string& base, bool two)
{
	std::set<std::string> items;
	DIR *dp(opendir(dir.c_str()));
	while (dirent *e = readdir(dp))
	{
		const std::string n(e->d_name);
		if (n == "." || n == "..") continue;
		unsigned long id(0);
		FILE *f(std::fopen((dir + "/" + n).c_str(), "r"));
		if (f) { if (std::fscanf(f, "%lu", &id) != 1) id = 0; std::fclose(f); }
		std::ostringstream os; os << classify(n, base, two) << '=' << id;
		items.insert(os.str());
		::unlink((dir + "/" + n).c_str());
	}
	closedir(dp);
	std::string r;
	for (std::set<std::string>::const_iterator it(items.begin()); it != items.end(); ++it) r += (r.empty() ? "" : " ") + *it;
	return r.empty() ? "empty" : r;
}

int main()
{
	// the global logger is not the subject here: library threads that log through it allocate from FastFlow's per-thread allocator, whose
	// deregistration at thread exit is occasionally reported by ASan (heap-use-after-free in ff/allocator.hpp) - keep it silent
	FIX8::GlobalLogger::set_levels(FIX8::Logger::Levels(FIX8::Logger::None));
	const std::string dir(scratch_dir("rot"));
	std::string line;
	while (std::getline(std::cin, line))
	{
		std::vector<std::string> w(split(line));
		if (w.size() == 6 && w[0] == "log")
		{
			const unsigned rot(std::stoul(w[1])); const bool app(w[2] == "1"), force(w[3] == "1");
			const std::string base("lg"), path(dir + "/" + base);
			for (unsigned k : nums(w[4])) { std::ostringstream os; os << path; if (k) os << '.' << k; put_file(os.str(), 100000 + k); }
			for (unsigned i : nums(w[5])) put_file(dir + "/" + other_name(base, i), 900000 + i);
			{
				Logger::LogFlags fl; fl << Logger::sequence; if (app) fl << Logger::append;
				FileLogger lg(path, fl, Logger::Levels(Logger::All), " ", Logger::LogPositions(), rot);
				if (force) lg.rotate(true);
			}
			out(listing(dir, base, false));
		}
		else if (w.size() == 5 && w[0] == "purge")
		{
			const unsigned rot(std::stoul(w[1]));
			const std::string base("st"), path(dir + "/" + base);
			for (unsigned k : nums(w[2])) { std::ostringstream os; os << path; if (k) os << '.' << k; put_file(os.str(), 100000 + k); }
			for (unsigned k : nums(w[3])) { std::ostringstream os; os << path; if (k) os << '.' << k; os << ".idx"; put_file(os.str(), 200000 + k); }
			for (unsigned i : nums(w[4])) put_file(dir + "/" + other_name(base, i), 900000 + i);
			bool ok;
			{
				FilePersister fp(rot);
				ok = fp.initialise(dir, base, true);
			}
			out((ok ? "" : "init-failed ") + listing(dir, base, true));
		}
		else out("bad-op");
	}
	::rmdir(dir.c_str());
	std::fflush(stdout);
	_exit(0);
}
