// C31 harness: the real Timer<T> / TimerEvent<T> of include/fix8/timer.hpp.
//
// Deterministic mode (lines new/sched/stop/tick/clear/cclear/end): the real Timer thread (timer.start()) runs
// Timer::operator() unmodified.  The clock is virtual (harness/vclock.hpp) and the interposed clock_nanosleep behind
// hypersleep<h_milliseconds>(_granularity) is the idle point: the timer thread parks there and the script thread
// advances the virtual clock, calls schedule()/clear(), and releases it for exactly one wake-up.
//   new <granularity ms> <t0 ns>      -> ok
//   sched <cb> <delay ms> <repeat>    -> ok q=<queue size>
//   stop <cb> <T ns|inf>              -> ok                  callback cb returns (sampled virtual time < T)
//   tick <advance ns>                 -> run <cb>@<virtual time>:<result> ... | q=<queue size>
//   clear                             -> cleared <n>
//   cclear <advance ns>               -> crun <runs> | cleared <n> during=<0|1> | q=<queue size>
//        like tick, but while the FIRST callback of the wake-up is executing another thread calls clear();
//        during=1: clear() returned while that callback was still executing
//   end                               -> end q=<queue size>  (stop + join, as ~Timer does)
// Threaded mode (line thr ...): real clock, real sleeping, a scheduling thread and clearing threads; prints the raw event log
// (times in ns since the start of the scenario); judged by the Python oracle only.
//   thr g=<gran> dur=<ms> ev=<cb>:<at ms>:<delay ms>:<repeat>:<ntrue>:<hold ms>,... clr=t<ms>|r<cb>.<k>,...
//        ntrue: number of invocations that return true before the callback returns false (999 = always true)
//        hold: how long the callback body takes;  t<ms>: clear() at that offset;  r<cb>.<k>: clear() while the k-th run of cb executes
#include "hcommon.hpp"
#include "vclock.hpp"
#include <mutex>
#include <condition_variable>
#include <thread>
#include <climits>
#include <sys/syscall.h>
#include <unistd.h>
#include <fix8/f8includes.hpp>
using namespace FIX8;

// read access to two private members of Timer<T> (members of a `class` without an access label are private, so
// openup.hpp does not reach them): explicit instantiation may name private members.
namespace th {
template<typename Tag, typename Tag::type M> struct Rob { friend typename Tag::type get(Tag) { return M; } };
}

namespace th
{
const int NCB = 32;

long long real_ns(clockid_t id)
{
	struct timespec ts;
	syscall(SYS_clock_gettime, id, &ts);
	return ts.tv_sec * 1000000000LL + ts.tv_nsec;
}
void real_sleep_ns(long long ns)
{
	if (ns <= 0) return;
	struct timespec ts; ts.tv_sec = ns / 1000000000LL; ts.tv_nsec = ns % 1000000000LL;
	syscall(SYS_clock_nanosleep, CLOCK_MONOTONIC, 0, &ts, 0);
}

struct Mon;
bool on_callback(int id);
struct Mon
{
	template<int I> bool cb() { return on_callback(I); }
};
typedef bool (Mon::*cbptr)();
struct TagQ { typedef std::priority_queue<TimerEvent<Mon>> Timer<Mon>::*type; friend type get(TagQ); };
struct TagT { typedef f8_thread<Timer<Mon>> Timer<Mon>::*type; friend type get(TagT); };
template<int I> struct Fill { static void go(cbptr *t) { t[I] = &Mon::cb<I>; Fill<I - 1>::go(t); } };
template<> struct Fill<-1> { static void go(cbptr *) {} };
cbptr g_cbs[NCB];
template struct Rob<TagQ, &Timer<Mon>::_event_queue>;
template struct Rob<TagT, &Timer<Mon>::_thread>;

//------------------------------------------------------------------------------------------------
enum Mode { OFF, DET, THR };
std::atomic<int> g_mode(OFF);
Mon g_mon;
Timer<Mon> *g_timer(0);

// deterministic mode state
std::mutex g_m;
std::condition_variable g_cv;
unsigned long g_parks(0);
bool g_go(false), g_quit(false), g_trap(false), g_in_cb(false), g_release(false);
long long g_stop[NCB];
struct Rec { int cb; long long t; bool r; };
std::vector<Rec> g_log;

std::atomic<unsigned long> g_timer_tid(0); // pthread_t of the deterministic timer thread (0: none)
bool is_timer_thread()
{
	const unsigned long t(g_timer_tid);
	return t && pthread_equal(pthread_self(), static_cast<pthread_t>(t));
}

// threaded mode state
struct TEv { int cb, at, delay, rep, ntrue, hold; long long B, A; int runs; };
struct TClr { bool bytime; int at, cb, k; long long B, A; size_t n; std::atomic<int> state; /* 0 idle 1 wanted 2 calling 3 done */ };
struct TRun { int cb; long long E, X; bool r; };
std::vector<TEv> g_tev;
std::vector<TClr *> g_tclr;
std::vector<TRun> g_truns;
std::mutex g_tm;
long long g_t0(0);
long long tnow() { return real_ns(CLOCK_REALTIME) - g_t0; }

bool on_callback(int id)
{
	if (g_mode == DET)
	{
		const long long now(vclock::get());
		const bool r(now < g_stop[id]);
		std::unique_lock<std::mutex> lk(g_m);
		g_log.push_back(Rec { id, now, r });
		if (g_trap)
		{
			g_trap = false; g_in_cb = true;
			g_cv.notify_all();
			g_cv.wait(lk, [] { return g_release; });
			g_release = false; g_in_cb = false;
		}
		return r;
	}
	// threaded
	const long long E(tnow());
	TEv *ev(0);
	for (size_t i(0); i < g_tev.size(); ++i)
		if (g_tev[i].cb == id) ev = &g_tev[i];
	if (!ev) return false;
	const int k(++ev->runs);
	const bool r(ev->ntrue >= 999 || k <= ev->ntrue);
	for (size_t i(0); i < g_tclr.size(); ++i)
	{
		TClr& c(*g_tclr[i]);
		if (!c.bytime && c.cb == id && c.k == k)
		{
			c.state = 1;
			for (int w(0); c.state < 2 && w < 2000; ++w) // until the clearing thread is about to call clear()
				real_sleep_ns(50000);
			real_sleep_ns(2000000);                       // clear() is now in progress (or, if it does not wait for us, done)
		}
	}
	real_sleep_ns(ev->hold * 1000000LL);
	const long long X(tnow());
	{
		std::lock_guard<std::mutex> lk(g_tm);
		g_truns.push_back(TRun { id, E, X, r });
	}
	return r;
}

// the idle point
void sleep_hook(long long ns, bool abs)
{
	if (g_mode == DET && is_timer_thread())
	{
		std::unique_lock<std::mutex> lk(g_m);
		if (g_quit) return;
		++g_parks;
		g_cv.notify_all();
		g_cv.wait(lk, [] { return g_go || g_quit; });
		g_go = false;
		return;
	}
	if (vclock::get() >= 0)
	{
		// some other thread of the library (the global logger's) while the clock is virtual: its deadline was computed from the virtual clock
		real_sleep_ns(200000);
		return;
	}
	if (abs)
		real_sleep_ns(ns - real_ns(CLOCK_MONOTONIC));
	else
		real_sleep_ns(ns);
}

size_t qsize() { return g_timer ? (g_timer->*get(TagQ())).size() : 0; }

bool num(const std::string& s, unsigned long long& to, unsigned long long max)
{
	if (s.empty() || s.size() > 18) return false;
	for (size_t i(0); i < s.size(); ++i)
		if (s[i] < '0' || s[i] > '9') return false;
	to = std::stoull(s);
	return to <= max;
}

void det_end()
{
	if (!g_timer) return;
	{
		std::lock_guard<std::mutex> lk(g_m);
		g_quit = true;
		g_cv.notify_all();
	}
	delete g_timer; // ~Timer: stop(); join();
	g_timer = 0;
	g_timer_tid = 0;
	g_mode = OFF;
	vclock::off();
}

// release the parked timer thread for one wake-up; returns when it is parked again (or, with the trap armed, inside a callback)
void wake_and_wait(std::unique_lock<std::mutex>& lk)
{
	const unsigned long g(g_parks);
	g_go = true;
	g_cv.notify_all();
	g_cv.wait(lk, [g] { return g_parks > g || g_in_cb; });
}

std::string show_log()
{
	std::ostringstream os;
	if (g_log.empty()) os << " -";
	for (size_t i(0); i < g_log.size(); ++i)
		os << ' ' << g_log[i].cb << '@' << g_log[i].t << ':' << (g_log[i].r ? 1 : 0);
	g_log.clear();
	return os.str();
}

//------------------------------------------------------------------------------------------------
std::string threaded(const std::vector<std::string>& w)
{
	int gran(1), dur(100);
	g_tev.clear(); g_truns.clear();
	for (size_t i(0); i < g_tclr.size(); ++i) delete g_tclr[i];
	g_tclr.clear();
	for (size_t i(1); i < w.size(); ++i)
	{
		const std::string& a(w[i]);
		if (a.compare(0, 2, "g=") == 0) gran = std::atoi(a.c_str() + 2);
		else if (a.compare(0, 4, "dur=") == 0) dur = std::atoi(a.c_str() + 4);
		else if (a.compare(0, 3, "ev=") == 0 || a.compare(0, 4, "clr=") == 0)
		{
			const bool isev(a[0] == 'e');
			std::string rest(a.substr(isev ? 3 : 4)), item;
			std::istringstream is(rest);
			while (std::getline(is, item, ','))
			{
				if (isev)
				{
					TEv e; std::memset(&e, 0, sizeof(e));
					if (std::sscanf(item.c_str(), "%d:%d:%d:%d:%d:%d", &e.cb, &e.at, &e.delay, &e.rep, &e.ntrue, &e.hold) != 6
						|| e.cb < 0 || e.cb >= NCB || e.delay < 0 || e.at < 0 || e.hold < 0 || e.hold > 50) return "bad-op";
					for (size_t j(0); j < g_tev.size(); ++j)
						if (g_tev[j].cb == e.cb) return "bad-op";
					e.B = e.A = -1;
					g_tev.push_back(e);
				}
				else
				{
					TClr *c(new TClr); c->B = c->A = -1; c->n = 0; c->state = 0; c->at = c->cb = c->k = 0;
					g_tclr.push_back(c);
					if (item.size() > 1 && item[0] == 't') { c->bytime = true; c->at = std::atoi(item.c_str() + 1); }
					else if (item.size() > 1 && item[0] == 'r' && std::sscanf(item.c_str() + 1, "%d.%d", &c->cb, &c->k) == 2) c->bytime = false;
					else return "bad-op";
				}
			}
		}
		else return "bad-op";
	}
	if (dur < 1 || dur > 2000 || gran < 1 || gran > 100) return "bad-op";
	if (g_timer) return "bad-op"; // only between deterministic segments

	const long long saved(vclock::get());
	vclock::off();
	g_mode = THR;
	std::sort(g_tev.begin(), g_tev.end(), [](const TEv& a, const TEv& b) { return a.at < b.at; });
	{
		Timer<Mon> timer(g_mon, gran);
		g_t0 = real_ns(CLOCK_REALTIME);
		timer.start();
		std::atomic<bool> over(false);
		std::vector<std::thread> clearers;
		for (size_t i(0); i < g_tclr.size(); ++i)
		{
			TClr *c(g_tclr[i]);
			clearers.push_back(std::thread([c, &timer, &over]
			{
				if (c->bytime)
					real_sleep_ns(c->at * 1000000LL - tnow());
				else
					while (c->state < 1 && !over) real_sleep_ns(50000);
				if (over && c->state < 1 && !c->bytime) return;
				c->B = tnow();
				c->state = 2;
				c->n = timer.clear();
				c->A = tnow();
				c->state = 3;
			}));
		}
		for (size_t i(0); i < g_tev.size(); ++i)
		{
			TEv& e(g_tev[i]);
			real_sleep_ns(e.at * 1000000LL - tnow());
			TimerEvent<Mon> te(g_cbs[e.cb], e.rep != 0);
			const long long B(tnow());
			timer.schedule(te, static_cast<unsigned>(e.delay));
			e.A = tnow(); e.B = B;
		}
		real_sleep_ns(dur * 1000000LL - tnow());
		over = true;
		for (size_t i(0); i < clearers.size(); ++i) clearers[i].join();
		timer.stop();
	} // ~Timer joins
	g_mode = OFF;
	if (saved >= 0) vclock::set(saved);

	std::ostringstream os;
	os << "thr";
	for (size_t i(0); i < g_tev.size(); ++i)
		os << " S" << g_tev[i].cb << ':' << g_tev[i].B << ':' << g_tev[i].A;
	for (size_t i(0); i < g_truns.size(); ++i)
		os << " R" << g_truns[i].cb << ':' << g_truns[i].E << ':' << g_truns[i].X << ':' << (g_truns[i].r ? 1 : 0);
	for (size_t i(0); i < g_tclr.size(); ++i)
		if (g_tclr[i]->state == 3)
			os << " C" << g_tclr[i]->B << ':' << g_tclr[i]->A << ':' << g_tclr[i]->n;
	return os.str();
}
}

using namespace th;

//------------------------------------------------------------------------------------------------
int main()
{
	// the global logger is not the subject here: library threads that log through it allocate from FastFlow's per-thread allocator, whose
	// deregistration at thread exit is occasionally reported by ASan (heap-use-after-free in ff/allocator.hpp) - keep it silent
	FIX8::GlobalLogger::set_levels(FIX8::Logger::Levels(FIX8::Logger::None));
	Fill<NCB - 1>::go(g_cbs);
	vclock::sleep_hook = sleep_hook; // set once, before any other thread exists
	std::string line;
	while (std::getline(std::cin, line))
	{
		const std::vector<std::string> w(split(line));
		std::ostringstream os;
		unsigned long long a(0), b(0);
		if (w.size() == 3 && w[0] == "new" && num(w[1], a, ~0ULL) && num(w[2], b, ~0ULL))
		{
			det_end();
			for (int i(0); i < NCB; ++i) g_stop[i] = LLONG_MAX;
			g_log.clear();
			g_quit = g_go = g_trap = g_in_cb = g_release = false;
			vclock::set(static_cast<long long>(b));
			g_mode = DET;
			std::unique_lock<std::mutex> lk(g_m);
			const unsigned long g(g_parks);
			g_timer = new Timer<Mon>(g_mon, static_cast<int>(a > 1000 ? 1000 : a));
			g_timer->start();
			g_timer_tid = static_cast<unsigned long>((g_timer->*get(TagT())).get_threadid());
			g_cv.wait(lk, [g] { return g_parks > g; });
			os << "ok";
		}
		else if (!w.empty() && w[0] == "thr")
			os << threaded(w);
		else if (!g_timer)
		{
			static const char *ops[] = { "sched", "stop", "tick", "clear", "cclear", "end" };
			bool known(false);
			for (size_t i(0); i < 6; ++i) known = known || (!w.empty() && w[0] == ops[i]);
			os << (known ? "no-timer" : "bad-op");
		}
		else if (w.size() == 4 && w[0] == "sched" && num(w[1], a, NCB - 1) && num(w[2], b, 4294967295ULL) && (w[3] == "0" || w[3] == "1"))
		{
			TimerEvent<Mon> te(g_cbs[a], w[3] == "1");
			const bool ok(g_timer->schedule(te, static_cast<unsigned>(b)));
			os << (ok ? "ok" : "fail") << " q=" << qsize();
		}
		else if (w.size() == 3 && w[0] == "stop" && num(w[1], a, NCB - 1) && (w[2] == "inf" || num(w[2], b, ~0ULL)))
		{
			g_stop[a] = w[2] == "inf" ? LLONG_MAX : static_cast<long long>(b);
			os << "ok";
		}
		else if (w.size() == 2 && w[0] == "tick" && num(w[1], a, 10000000000000ULL))
		{
			std::unique_lock<std::mutex> lk(g_m);
			vclock::advance(static_cast<long long>(a));
			wake_and_wait(lk);
			os << "run" << show_log() << " | q=" << qsize();
		}
		else if (w.size() == 1 && w[0] == "clear")
			os << "cleared " << g_timer->clear();
		else if (w.size() == 2 && w[0] == "cclear" && num(w[1], a, 10000000000000ULL))
		{
			std::unique_lock<std::mutex> lk(g_m);
			vclock::advance(static_cast<long long>(a));
			g_trap = true;
			const unsigned long g(g_parks);
			wake_and_wait(lk);
			size_t n(0);
			int during(0);
			if (g_in_cb)
			{
				std::atomic<bool> done(false);
				Timer<Mon> *t(g_timer);
				std::thread helper([t, &n, &done] { n = t->clear(); done = true; });
				lk.unlock();
				for (int i(0); i < 40 && !done; ++i) // 20 ms of real time: does clear() return while the callback is executing?
					real_sleep_ns(500000);
				during = done ? 1 : 0;
				lk.lock();
				g_release = true;
				g_cv.notify_all();
				g_cv.wait(lk, [g] { return g_parks > g; });
				lk.unlock();
				helper.join();
				lk.lock();
			}
			else
			{
				g_trap = false;
				n = g_timer->clear();
			}
			os << "crun" << show_log() << " | cleared " << n << " during=" << during << " | q=" << qsize();
		}
		else if (w.size() == 1 && w[0] == "end")
		{
			const size_t q(qsize());
			det_end();
			os << "end q=" << q;
		}
		else
			os << "bad-op";
		out(os.str());
	}
	det_end();
	std::fflush(stdout);
	_exit(0);	// no static destruction: threads of the threaded scenarios and the library's globals (FastFlow allocator) are not torn down
}
