// C21 harness: TWO REAL FIX8::Session objects in one process - an initiator A (FIX.4.2:CLI->SRV, ClientConnection) and an
// acceptor B (sender_comp_id SRV, ServerConnection) - FIX42UTEST schema, each over its own FilePersister, pm_coro, timer
// threads stopped, virtual clock.  The harness owns the wire: every outbound frame of either session is captured at the
// send() call and queued (ab: A->B, ba: B->A); nothing is transmitted; a frame is delivered by process(raw) on the receiver.
//
//   new <enforce 0|1>   everything destroyed, temp dir emptied, fresh persisters cli.db / srv.db, clock reset, no sessions
//   connect             (only when down) new Session objects over the same persisters; A start() -> Logon into ab; B waits
//   sendA <pid> / sendB <pid>   that side's application sends NewOrderSingle(ClOrdID = pid)
//   dAB / dBA           the oldest frame in flight is handed to the receiver's process(); what it writes is queued the other way
//   drop                frames in flight are lost; stop() on both sessions (objects kept)
//   restartA / restartB as drop; that side's Session object is destroyed and its persister files are closed and re-opened
//   tick <ms>           the virtual clock advances
// Result line:  <micro>/ <micro>/ ... || A<summary> B<summary> ab=<len> ba=<len> up=<0|1>
//   micro   = <A|B>:call <events>      or   <A|B>:abs{<independent decode of the inbound frame>} <events>
//   events  = adm{raw} dlv{raw, decoded} out{decoded outbound frame}
//   summary = | st=<state> ns=<next send> nr=<next receive> ctrl=<a,b|none> sd=<shutdown>      or   | gone ctrl=<a,b|none>
#include "hcommon.hpp"
#include <Poco/Net/StreamSocketImpl.h>
#include "openup.hpp"
#include "vclock.hpp"
#include <fix8/f8includes.hpp>
#include "utest_types.hpp"
#include "utest_router.hpp"
#include "utest_classes.hpp"
#include <deque>
#include <dirent.h>
#include <sys/stat.h>
#include <sys/socket.h>
#include <netinet/in.h>
#include <arpa/inet.h>
using namespace FIX8;

static const long long T0_MS = 1600000000000LL;	// 2020-09-13T12:26:40Z
static const char SOH('\001');

static std::string fld(const MessageBase *mb, unsigned short tag)
{
	if (!mb) return "-";
	const BaseField *bf(mb->get_field(tag));
	if (!bf) return "-";
	std::ostringstream os; bf->print(os);
	return os.str().empty() ? "-" : os.str();
}
static std::string ts_ms(const std::string& t)
{
	if (t == "-") return "-";
	struct tm tmv; std::memset(&tmv, 0, sizeof(tmv));
	int ms(0);
	if (std::sscanf(t.c_str(), "%4d%2d%2d-%2d:%2d:%2d.%3d", &tmv.tm_year, &tmv.tm_mon, &tmv.tm_mday, &tmv.tm_hour, &tmv.tm_min, &tmv.tm_sec, &ms) < 6)
		return "?";
	tmv.tm_year -= 1900; tmv.tm_mon -= 1;
	std::ostringstream os; os << ((long long)timegm(&tmv) * 1000LL + ms);
	return os.str();
}
static std::string absrec(const Message *m)
{
	std::ostringstream os;
	const MessageBase *h(m->Header());
	std::string pd(fld(h, 43)), gf(fld(m, 123));
	os << "t=" << m->get_msgtype() << ",seq=" << fld(h, 34) << ",pd=" << (pd == "Y" ? "1" : pd == "N" ? "0" : pd)
		<< ",st=" << ts_ms(fld(h, 52)) << ",ost=" << ts_ms(fld(h, 122)) << ",snd=" << fld(h, 49) << ",tgt=" << fld(h, 56)
		<< ",new=" << fld(m, 36) << ",gf=" << (gf == "Y" ? "1" : gf == "N" ? "0" : gf) << ",b=" << fld(m, 7) << ",e=" << fld(m, 16)
		<< ",ref=" << fld(m, 45) << ",trq=" << fld(m, 112) << ",pid=" << fld(m, 11) << ",adm=" << (m->is_admin() ? 1 : 0);
	return os.str();
}
static std::string absraw(const std::string& raw)
{
	Message *m(nullptr);
	std::string r;
	try
	{
		m = Message::factory(UTEST::ctx(), raw, false, false);
		if (!m) return "dec=null";
		r = "dec=ok," + absrec(m);
	}
	catch (f8Exception& e) { r = std::string("dec=throw,fl=") + (e.force_logoff() ? "1" : "0"); }
	catch (std::exception& e) { r = "dec=stdexc"; }
	delete m;
	return r;
}
static void cut_frames(const std::string& data, std::vector<std::string>& to)
{
	size_t pos(0);
	while (pos < data.size())
	{
		const size_t p9(data.find("\0019=", pos));
		if (p9 == std::string::npos) { to.push_back(data.substr(pos)); return; }
		const size_t pe(data.find('\001', p9 + 3));
		if (pe == std::string::npos) { to.push_back(data.substr(pos)); return; }
		const unsigned long len(std::strtoul(data.substr(p9 + 3, pe - p9 - 3).c_str(), nullptr, 10));
		const size_t end(pe + 1 + len + 7);
		if (end > data.size()) { to.push_back(data.substr(pos)); return; }
		to.push_back(data.substr(pos, end - pos));
		pos = end;
	}
}

class HSess;
// one party: its persister (owned by the harness for the whole run), its Session / Connection objects, its socket, the
// harness-side end of that socket, the events of the current micro step and the channel its output goes into
struct Party
{
	char name; const char *db;
	FilePersister *per;
	HSess *sess; Connection *conn; Poco::Net::StreamSocket *sock;
	int hfd;	// the harness's end of the TCP connection (never read, never written)
	std::vector<std::string> events;
	std::deque<std::string> *outq;
	Party(char n, const char *d) : name(n), db(d), per(nullptr), sess(nullptr), conn(nullptr), sock(nullptr), hfd(-1), outq(nullptr) {}
	int fd() const { return sock && sock->impl() ? int(sock->impl()->sockfd()) : -1; }
};
static Party g_a('A', "cli.db"), g_b('B', "srv.db");
static std::deque<std::string> g_ab, g_ba;

extern "C" ssize_t send(int fd, const void *buf, size_t n, int flags)
{
	typedef ssize_t (*sfn)(int, const void *, size_t, int);
	static sfn real((sfn)dlsym(RTLD_NEXT, "send"));
	Party *s(fd < 0 ? nullptr : fd == g_a.fd() ? &g_a : fd == g_b.fd() ? &g_b : nullptr);
	if (s)
	{
		std::vector<std::string> frames;
		cut_frames(std::string(static_cast<const char *>(buf), n), frames);
		for (size_t i(0); i < frames.size(); ++i)
		{
			s->events.push_back("out{" + absraw(frames[i]) + ",hex=" + hex(frames[i]) + "}");
			s->outq->push_back(frames[i]);
		}
		return n;	// nothing is put on the wire
	}
	return real(fd, buf, n, flags);
}

class HSess : public Session
{
	Party& _side;
public:
	HSess(const SessionID& sid, Persister *p, Party& side) : Session(UTEST::ctx(), sid, p, nullptr, nullptr), _side(side) { halt(); }
	HSess(const sender_comp_id& sci, Persister *p, Party& side) : Session(UTEST::ctx(), sci, p, nullptr, nullptr), _side(side) { halt(); }
	void halt() { _timer.clear(); _timer.stop(); _timer.join(); }
	bool handle_admin(const unsigned seqnum, const Message *msg)
	{
		std::ostringstream os; os << "adm{raw=" << seqnum << '}'; _side.events.push_back(os.str());
		return true;
	}
	// the pattern of every sample application: enforce(...) || deliver
	bool handle_application(const unsigned seqnum, const Message *&msg)
	{
		if (enforce(seqnum, msg))
			return true;
		std::ostringstream os; os << "dlv{raw=" << seqnum << ',' << absrec(msg) << '}'; _side.events.push_back(os.str());
		return true;
	}
};

static std::string g_dir;
static void rmtree(const std::string& d)
{
	DIR *dp(opendir(d.c_str()));
	if (!dp) return;
	while (dirent *e = readdir(dp))
	{
		const std::string n(e->d_name);
		if (n == "." || n == "..") continue;
		::unlink((d + "/" + n).c_str());
	}
	closedir(dp);
}

static Message *mk_order(const std::string& pid)
{
	UTEST::NewOrderSingle *nos(new UTEST::NewOrderSingle);
	*nos << new UTEST::TransactTime(Tickval(true))
		  << new UTEST::OrderQty(50)
		  << new UTEST::ClOrdID(pid)
		  << new UTEST::HandlInst(UTEST::HandlInst_AUTOMATED_EXECUTION_ORDER_PRIVATE_NO_BROKER_INTERVENTION)
		  << new UTEST::OrdType(UTEST::OrdType_MARKET)
		  << new UTEST::Side(UTEST::Side_BUY)
		  << new UTEST::Symbol("OC");
	return nos;
}

//---------------------------------------------------------------------------------------------------- the world
struct World
{
	int lfd; unsigned short port;
	bool enforce, up;
	long long now;	// ms since the epoch
	std::vector<std::string> micros;
	World() : lfd(-1), port(0), enforce(true), up(false), now(T0_MS) {}

	void listen_on()
	{
		lfd = ::socket(AF_INET, SOCK_STREAM, 0);
		sockaddr_in a; std::memset(&a, 0, sizeof(a)); a.sin_family = AF_INET; a.sin_addr.s_addr = htonl(INADDR_LOOPBACK); a.sin_port = 0;
		if (::bind(lfd, (sockaddr *)&a, sizeof(a)) || ::listen(lfd, 4)) { std::perror("listen"); _exit(3); }
		socklen_t l(sizeof(a)); ::getsockname(lfd, (sockaddr *)&a, &l); port = ntohs(a.sin_port);
	}
	// ~Connection detaches from the session: connection first, then the session (which then leaves the persister alone)
	static void destroy(Party& s)
	{
		delete s.conn; s.conn = nullptr;
		delete s.sess; s.sess = nullptr;
		delete s.sock; s.sock = nullptr;
		if (s.hfd >= 0) { ::close(s.hfd); s.hfd = -1; }
		s.events.clear();
	}
	static void open_store(Party& s, bool fresh)
	{
		delete s.per; s.per = nullptr;
		s.per = new FilePersister(0);
		if (!s.per->initialise(g_dir, s.db, fresh))
			throw std::runtime_error("persister");
	}
	static bool live(const Party& s) { return s.sess && !s.sess->is_shutdown(); }
	LoginParameters params() const { return LoginParameters(1, 1, default_appl_ver_id(), 1, false, false, false, false, false, false, enforce); }

	bool start_a()
	{
		Party& s(g_a);
		s.sess = new HSess(SessionID(f8String("FIX.4.2"), f8String("CLI"), f8String("SRV")), s.per, s);
		s.sess->set_login_parameters(params());
		s.sock = new Poco::Net::StreamSocket;
		Poco::Net::SocketAddress addr("127.0.0.1", port);
		s.conn = new ClientConnection(s.sock, addr, *s.sess, 30, pm_coro, true);
		const bool ok(s.sess->start(s.conn, false, 0, 0) == 0);
		if (ok) s.hfd = ::accept(lfd, nullptr, nullptr);
		return ok;
	}
	bool start_b()
	{
		Party& s(g_b);
		s.sess = new HSess(sender_comp_id("SRV"), s.per, s);
		s.sess->set_login_parameters(params());
		s.hfd = ::socket(AF_INET, SOCK_STREAM, 0);
		sockaddr_in a; std::memset(&a, 0, sizeof(a)); a.sin_family = AF_INET; a.sin_addr.s_addr = htonl(INADDR_LOOPBACK); a.sin_port = htons(port);
		if (::connect(s.hfd, (sockaddr *)&a, sizeof(a))) { std::perror("connect"); _exit(3); }
		const int fd(::accept(lfd, nullptr, nullptr));
		s.sock = new Poco::Net::StreamSocket(new Poco::Net::StreamSocketImpl(fd));
		Poco::Net::SocketAddress addr("127.0.0.1", port);
		s.conn = new ServerConnection(s.sock, addr, *s.sess, 30, pm_coro);
		return s.sess->start(s.conn, false) == 0;
	}
	// connection lost: frames in flight are lost, both sessions are stopped, the objects stay
	void down()
	{
		g_ab.clear(); g_ba.clear();
		if (live(g_a)) g_a.sess->stop();
		if (live(g_b)) g_b.sess->stop();
		g_a.events.clear(); g_b.events.clear();
		up = false;
	}
	static std::string summary(const Party& s)
	{
		std::ostringstream os;
		os << s.name << '|';
		if (s.sess)
			os << " st=" << Session::_state_names[s.sess->_state] << " ns=" << unsigned(s.sess->_next_send_seq) << " nr=" << unsigned(s.sess->_next_receive_seq);
		else
			os << " gone";
		unsigned a(0), b(0);
		if (s.per && s.per->get(a, b)) os << " ctrl=" << a << ',' << b; else os << " ctrl=none";
		if (s.sess)
			os << " sd=" << (s.sess->is_shutdown() ? 1 : 0);
		return os.str();
	}
	void close_micro(Party& s, const std::string& head)
	{
		std::ostringstream os;
		os << s.name << ':' << head << ' ';
		for (size_t i(0); i < s.events.size(); ++i) os << s.events[i] << ' ';
		micros.push_back(os.str());
		s.events.clear();
	}
	// the oldest frame of `q` reaches `to`
	void deliver(std::deque<std::string>& q, Party& to)
	{
		if (q.empty()) return;
		const std::string raw(q.front()); q.pop_front();
		to.events.clear();
		const std::string head("abs{" + absraw(raw) + "}");
		if (live(to))
		{
			try { to.sess->process(raw); }
			catch (f8Exception& e) { to.events.push_back(std::string("throw:f8Exception:fl=") + (e.force_logoff() ? "1" : "0")); }
			catch (std::exception& e) { to.events.push_back("throw:std"); }
		}
		close_micro(to, head);
	}
	void app_send(Party& s, const std::string& pid)
	{
		if (!live(s)) return;
		s.events.clear();
		try { s.sess->send(mk_order(pid), true, 0, false); }
		catch (f8Exception& e) { s.events.push_back(std::string("throw:f8Exception:fl=") + (e.force_logoff() ? "1" : "0")); }
		catch (std::exception& e) { s.events.push_back("throw:std"); }
		close_micro(s, "call");
	}
};

static bool is_nat(const std::string& s) { return !s.empty() && s.find_first_not_of("0123456789") == std::string::npos; }
static std::string nat(const std::string& s)	// canonical decimal (the model keeps numbers)
{
	const size_t p(s.find_first_not_of('0'));
	return p == std::string::npos ? "0" : s.substr(p);
}

int main()
{
	// the global logger is not the subject here: library threads that log through it allocate from FastFlow's per-thread allocator, whose
	// deregistration at thread exit is occasionally reported by ASan (heap-use-after-free in ff/allocator.hpp) - keep it silent
	FIX8::GlobalLogger::set_levels(FIX8::Logger::Levels(FIX8::Logger::None));
	vclock::skip_sleeps = true;
	vclock::set(T0_MS * 1000000LL);
	g_dir = scratch_dir("duo");
	g_a.outq = &g_ab; g_b.outq = &g_ba;
	World w;
	w.listen_on();
	bool have(false);
	std::string line;
	while (std::getline(std::cin, line))
	{
		std::vector<std::string> a(split(line));
		w.micros.clear();
		try
		{
			if (a.empty()) { out("bad-op"); continue; }
			if (a[0] == "new" && a.size() == 2)
			{
				World::destroy(g_a); World::destroy(g_b);
				delete g_a.per; g_a.per = nullptr;
				delete g_b.per; g_b.per = nullptr;
				g_ab.clear(); g_ba.clear();
				rmtree(g_dir);
				w.now = T0_MS; vclock::set(w.now * 1000000LL);
				w.enforce = a[1] == "1"; w.up = false;
				World::open_store(g_a, true); World::open_store(g_b, true);
				have = true;
			}
			else if (!have) { out("no-world"); continue; }
			else if (a[0] == "tick" && a.size() == 2 && is_nat(a[1]))
			{
				w.now += std::stoll(a[1]);
				vclock::set(w.now * 1000000LL);
			}
			else if (a[0] == "connect" && a.size() == 1)
			{
				if (!w.up)
				{
					World::destroy(g_a); World::destroy(g_b);
					g_ab.clear(); g_ba.clear();
					if (!w.start_a()) g_a.events.push_back("start-failed");
					w.close_micro(g_a, "call");
					if (!w.start_b()) g_b.events.push_back("start-failed");
					w.close_micro(g_b, "call");
					w.up = true;
				}
			}
			else if (a[0] == "sendA" && a.size() == 2 && is_nat(a[1])) w.app_send(g_a, nat(a[1]));
			else if (a[0] == "sendB" && a.size() == 2 && is_nat(a[1])) w.app_send(g_b, nat(a[1]));
			else if (a[0] == "dAB" && a.size() == 1) w.deliver(g_ab, g_b);
			else if (a[0] == "dBA" && a.size() == 1) w.deliver(g_ba, g_a);
			else if (a[0] == "drop" && a.size() == 1) w.down();
			else if ((a[0] == "restartA" || a[0] == "restartB") && a.size() == 1)
			{
				Party& s(a[0] == "restartA" ? g_a : g_b);
				w.down();
				World::destroy(s);
				World::open_store(s, false);	// the process is started again: the files are closed and re-opened
			}
			else { out("bad-op"); continue; }
		}
		catch (f8Exception& e) { w.micros.push_back(std::string("throw:f8Exception:fl=") + (e.force_logoff() ? "1" : "0") + " "); }
		catch (std::exception& e) { w.micros.push_back(std::string("throw:std:") + e.what() + " "); }
		std::ostringstream os;
		for (size_t i(0); i < w.micros.size(); ++i) os << w.micros[i] << "/ ";
		os << "|| " << World::summary(g_a) << ' ' << World::summary(g_b) << " ab=" << g_ab.size() << " ba=" << g_ba.size() << " up=" << (w.up ? 1 : 0);
		out(os.str());
	}
	std::fflush(stdout);
	World::destroy(g_a); World::destroy(g_b);
	delete g_a.per; delete g_b.per;
	rmtree(g_dir); ::rmdir(g_dir.c_str());
	_exit(0);
}
