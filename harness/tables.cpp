// C10 / C12 harness over the freshly generated FIX42UTEST metadata.
//   tables dump                    -> realm tables, field table keys, msgtype keys, per-message trait tags
//   stream: "idx <fnum> <hextext>" -> "idx=<n> valid=<0|1> desc=<hex|->"   (field built through the generated factory)
//           "rng <lo> <hi> <v>"    -> same for a hand-made int range realm
//           "fld <fnum>"           -> "hit <name-hex>" | "miss"           (F8MetaCntx::find_be / field table _find)
//           "msg <hex>"            -> "hit <name-hex>" | "miss"           (message table)
//           "trait <msghex> <tag>" -> "has=<0|1> pos=<n>"                 (per-message FieldTraits lookup)
#include <memory>
#include "hcommon.hpp"
#include <fix8/f8includes.hpp>
#include "utest_types.hpp"
#include "utest_router.hpp"
#include "utest_classes.hpp"
using namespace FIX8;

static std::string cstr(const char *p) { return p ? std::string(p) : std::string(); }

static void dump()
{
	const F8MetaCntx& c(UTEST::ctx());
	std::ostringstream flds;
	for (unsigned i(0); i < c._be.size(); ++i)
	{
		const FieldTable::Pair *pp(c._be.at(i));
		flds << ' ' << pp->_key;
		const RealmBase *r(pp->_value._rlm);
		if (!r) continue;
		std::ostringstream os;
		const char *ty(r->_ftype == FieldTrait::ft_Boolean ? "bool" : FieldTrait::is_int(r->_ftype) ? "int" : FieldTrait::is_char(r->_ftype) ? "char"
			: FieldTrait::is_string(r->_ftype) ? "string" : FieldTrait::is_float(r->_ftype) ? "float" : "other");
		os << "realm " << pp->_key << ' ' << (r->_dtype == RealmBase::dt_set ? "set" : "range") << ' ' << ty << ' ' << r->_sz;
		for (int k(0); k < r->_sz; ++k)
		{
			if (FieldTrait::is_int(r->_ftype)) os << ' ' << r->get_rlm_val<int>(k);
			else if (FieldTrait::is_char(r->_ftype) || r->_ftype == FieldTrait::ft_Boolean) os << ' ' << int((unsigned char)r->get_rlm_val<char>(k));
			else if (FieldTrait::is_string(r->_ftype)) os << ' ' << hex(r->get_rlm_val<f8String>(k));
			else os << " ?";
			os << ':' << hex(cstr(r->_descriptions[k]));
		}
		out(os.str());
	}
	out("fields" + flds.str());
	std::ostringstream msgs;
	for (unsigned i(0); i < c._bme.size(); ++i)
	{
		const MsgTable::Pair *pp(c._bme.at(i));
		msgs << ' ' << hex(cstr(pp->_key));
	}
	out("msgs" + msgs.str());
	for (unsigned i(0); i < c._bme.size(); ++i)
	{
		const MsgTable::Pair *pp(c._bme.at(i));
		const std::string key(cstr(pp->_key));
		if (key == "header" || key == "trailer") continue;
		Message *m(pp->_value._create._do(true));
		if (!m) continue;
		std::ostringstream os;
		os << "traits " << hex(key);
		for (Presence::const_iterator it(m->get_fp().get_presence().begin()); it != m->get_fp().get_presence().end(); ++it)
			os << ' ' << it->_fnum << ':' << it->_pos;
		out(os.str());
		delete m;
	}
}

struct Item
{
	long _k; char _pad[12];
	Item(long k=0) : _k(k) { std::memset(_pad, 0x33, sizeof(_pad)); }
	struct Compare { bool operator()(const Item& a, const Item& b) const { return a._k < b._k; } };
};
typedef presorted_set<long, Item, Item::Compare> GSet;

int main(int argc, char **argv)
{
	GSet *gs(new GSet(size_t(0), size_t(4)));
	Presence *ps(new Presence(size_t(0), size_t(4)));
	bool use_presence(false);
	if (argc > 1 && std::string(argv[1]) == "dump") { dump(); return 0; }
	const F8MetaCntx& c(UTEST::ctx());
	std::string line;
	while (std::getline(std::cin, line))
	{
		std::vector<std::string> w(split(line));
		std::ostringstream os;
		if (w.size() == 3 && w[0] == "new")
		{
			delete gs; delete ps;
			use_presence = w[1] == "p";
			const size_t res(std::stoul(w[2]));
			gs = new GSet(size_t(0), res); ps = new Presence(size_t(0), res);
			os << "ok";
		}
		else if (w.size() == 2 && w[0] == "ins")
		{
			const long k(std::stol(w[1]));
			if (use_presence) { const FieldTrait ft(static_cast<unsigned short>(k), FieldTrait::ft_int, 1); const bool r(ps->insert(&ft).second); os << (r ? 1 : 0) << " sz=" << ps->size() << " rsz=" << ps->rsize(); }
			else { const Item it(k); const bool r(gs->insert(&it).second); os << (r ? 1 : 0) << " sz=" << gs->size() << " rsz=" << gs->rsize(); }
		}
		else if (w.size() >= 2 && w[0] == "insr")		// range insert (FieldTraits::add(begin, cnt) / presorted_set::insert(begin, end)): stops at the first refused element
		{
			if (use_presence)
			{
				std::vector<FieldTrait> v;
				for (size_t i(1); i < w.size(); ++i) v.push_back(FieldTrait(static_cast<unsigned short>(std::stol(w[i])), FieldTrait::ft_int, 1));
				ps->insert(v.data(), v.data() + v.size());
				os << "sz=" << ps->size() << " rsz=" << ps->rsize();
			}
			else
			{
				std::vector<Item> v;
				for (size_t i(1); i < w.size(); ++i) v.push_back(Item(std::stol(w[i])));
				gs->insert(v.data(), v.data() + v.size());
				os << "sz=" << gs->size() << " rsz=" << gs->rsize();
			}
		}
		else if (w.size() == 2 && w[0] == "fnd")
		{
			const long k(std::stol(w[1]));
			bool ans(false);
			if (use_presence)
			{
				ps->find(static_cast<unsigned short>(k), ans);
				const Presence *cps(ps);
				const bool ans2(cps->find(static_cast<unsigned short>(k)) != cps->end());
				if (ans != ans2) { out("find-variants-differ"); continue; }
			}
			else
			{
				gs->find(Item(k), ans);
				const GSet *cgs(gs);
				const bool ans2(cgs->find(Item(k)) != cgs->end());
				if (ans != ans2) { out("find-variants-differ"); continue; }
			}
			os << (ans ? 1 : 0);
		}
		else if (w.size() == 1 && w[0] == "clr") { if (use_presence) ps->clear(); else gs->clear(); os << "ok"; }
		else if (w.size() == 1 && w[0] == "arr")
		{
			bool first(true);
			if (use_presence) for (Presence::const_iterator it(ps->begin()); it != ps->end(); ++it) { os << (first ? "" : " ") << it->_fnum; first = false; }
			else for (GSet::const_iterator it(gs->begin()); it != gs->end(); ++it) { os << (first ? "" : " ") << it->_k; first = false; }
			os << '.';
		}
		else if (w.size() == 3 && w[0] == "idx")
		{
			const unsigned fnum(std::stoul(w[1]));
			std::string txt; unhex(w[2], txt);
			const BaseEntry *be(c.find_be(fnum));
			if (!be || !be->_rlm) { out("no-realm"); continue; }
			BaseField *f(be->_create._do(txt.c_str(), be->_rlm, -1));
			const int idx(f->get_rlm_idx());
			const RealmBase *r(be->_rlm);
			const bool valid(FieldTrait::is_int(r->_ftype) ? r->is_valid<int>(fast_atoi<int>(txt.c_str()))
				: FieldTrait::is_char(r->_ftype) ? r->is_valid<char>(txt[0]) : r->is_valid<f8String>(txt));
			os << "idx=" << idx << " valid=" << (valid ? 1 : 0) << " desc=" << (idx >= 0 ? hex(cstr(be->_rlm->_descriptions[idx])) : "-");
			delete f;
		}
		else if (w.size() == 5 && w[0] == "asg")
		{
			// a field object that has already been looked up with value 1 receives value 2 (mode 0: operator= from another field, 1: the same
			// and the lookup is made on a copy(), 2: set()); the answer must be that of a fresh lookup of value 2
			const unsigned fnum(std::stoul(w[1]));
			std::string t1, t2; unhex(w[2], t1); unhex(w[3], t2);
			const int mode(std::stoi(w[4]));
			const BaseEntry *be(c.find_be(fnum));
			if (!be || !be->_rlm) { out("no-realm"); continue; }
			const RealmBase *r(be->_rlm);
			std::unique_ptr<BaseField> f1(be->_create._do(t1.c_str(), be->_rlm, -1)), f2(be->_create._do(t2.c_str(), be->_rlm, -1));
			const int first(f1->get_rlm_idx());
			(void)first;
			{ std::ostringstream sink; f1->print(sink); }
			// same layout for every tag (the library's own assumption, cf. has_group_count): assign through the tag-0 instance of the type
			if (FieldTrait::is_int(r->_ftype))
			{
				if (mode == 2) static_cast<Field<int, 0> *>(f1.get())->set(static_cast<Field<int, 0> *>(f2.get())->get());
				else *static_cast<Field<int, 0> *>(f1.get()) = *static_cast<Field<int, 0> *>(f2.get());
			}
			else if (FieldTrait::is_char(r->_ftype))
			{
				if (mode == 2) static_cast<Field<char, 0> *>(f1.get())->set(static_cast<Field<char, 0> *>(f2.get())->get());
				else *static_cast<Field<char, 0> *>(f1.get()) = *static_cast<Field<char, 0> *>(f2.get());
			}
			else
			{
				if (mode == 2) static_cast<Field<f8String, 0> *>(f1.get())->set(static_cast<Field<f8String, 0> *>(f2.get())->get());
				else *static_cast<Field<f8String, 0> *>(f1.get()) = *static_cast<Field<f8String, 0> *>(f2.get());
			}
			std::unique_ptr<BaseField> cp(mode == 1 ? f1->copy() : nullptr);
			const int idx(mode == 1 ? cp->get_rlm_idx() : f1->get_rlm_idx());
			const bool valid(FieldTrait::is_int(r->_ftype) ? r->is_valid<int>(fast_atoi<int>(t2.c_str()))
				: FieldTrait::is_char(r->_ftype) ? r->is_valid<char>(t2[0]) : r->is_valid<f8String>(t2));
			os << "idx=" << idx << " valid=" << (valid ? 1 : 0) << " desc=" << (idx >= 0 ? hex(cstr(be->_rlm->_descriptions[idx])) : "-");
		}
		else if (w.size() == 4 && w[0] == "rng")
		{
			const int bounds[2] = { std::stoi(w[1]), std::stoi(w[2]) };
			static const char *descs[2] = { "LOWER", "UPPER" };
			const RealmBase rb(bounds, RealmBase::dt_range, FieldTrait::ft_int, 2, descs);
			Field<int, 9000> f(std::stoi(w[3]), &rb);
			const int idx(f.get_rlm_idx());
			os << "idx=" << idx << " valid=" << (f.is_valid() ? 1 : 0) << " desc=" << (idx >= 0 ? hex(cstr(descs[idx])) : "-");
		}
		else if (w.size() == 2 && w[0] == "fld")
		{
			const unsigned fnum(std::stoul(w[1]));
			const BaseEntry *be(c.find_be(fnum));
			const BaseEntry *be2(c._be.find_ptr(fnum));
			if ((be == nullptr) != (be2 == nullptr) || (be && be != be2)) { out("find_be-differs-from-table"); continue; }
			if (be && be->_fnum != fnum) { out("wrong-entry"); continue; }
			os << (be ? "hit " + hex(cstr(be->_name)) : std::string("miss"));
			// reverse name lookup must lead back
			if (be) { const unsigned short back(c.reverse_find_fnum(be->_name)); if (back != fnum) os << " reverse=" << back; }
		}
		else if (w.size() == 2 && w[0] == "msg")
		{
			std::string key; unhex(w[1], key);
			const BaseMsgEntry *bme(c._bme.find_ptr(key.c_str()));
			os << (bme ? "hit " + hex(cstr(bme->_name)) : std::string("miss"));
		}
		else if (w.size() == 3 && w[0] == "trait")
		{
			std::string key; unhex(w[1], key);
			const unsigned tag(std::stoul(w[2]));
			const BaseMsgEntry *bme(c._bme.find_ptr(key.c_str()));
			if (!bme) { out("no-msg"); continue; }
			Message *m(bme->_create._do(true));
			const bool has(m->get_fp().has(tag));
			const Presence& pr(m->get_fp().get_presence());
			Presence::const_iterator it(pr.find(static_cast<unsigned short>(tag)));
			if ((it != pr.end()) != has) { out("has-differs-from-find"); delete m; continue; }
			// the non-const lookup paths (FieldTraits::set / clear, used by MessageBase::set, remove, replace)
			FieldTraits& fp(const_cast<FieldTraits&>(m->get_fp()));
			fp.set(static_cast<unsigned short>(tag), FieldTrait::present);
			const bool after_set(m->get_fp().get(static_cast<unsigned short>(tag), FieldTrait::present));
			fp.clear(static_cast<unsigned short>(tag), FieldTrait::present);
			const bool after_clear(m->get_fp().get(static_cast<unsigned short>(tag), FieldTrait::present));
			if (after_set != has || after_clear) { out(after_set != has ? "set-differs-from-has" : "clear-has-no-effect"); delete m; continue; }
			os << "has=" << (has ? 1 : 0) << " pos=" << (has ? int(it->_fnum) : 0);
			delete m;
		}
		else os << "bad-op";
		out(os.str());
	}
	return 0;
}
