// C28 harness: the real Logger / FileLogger / PipeLogger of /repo, driven by a line protocol.
//
// scripted (deterministic) part - every request is executed on the harness thread; the logger's own consumer
// thread (Logger::operator()) runs for real but is PARKED inside the harness's sleep hook (harness/vclock.hpp
// interposes clock_nanosleep, which is what hypersleep<h_microseconds>(200) of the empty-queue branch calls)
// whenever it found the queue empty, and is let go for exactly one "run until the queue is empty again or the
// thread has left operator()" by `run`:
//   new file|pipe <levels mask 0..31> <flags: subset of s(equence) d(irection) l(evel), or ->   -> ok
//   send <pid> <level 0..4> <val> <text|->      Logger::send     -> ret=<0|1>
//   enq  <pid> <level 0..4> <val> <text|->      Logger::enqueue  -> ret=<0|1>
//   run                                          -> parked | exited
//   flag / sentinel / join     the three statements of Logger::stop() one at a time (request_stop(); enqueue(std::string());
//                              _thread.join() - the consumer is released to run freely, then the harness waits until the
//                              thread has left operator(), which is what the join waits for)                 -> ok | ok | joined|hang
//   stop                       the real Logger::stop() (consumer released to run freely just before the call) -> stopped|hang
//   dump                       current content of the log file (file kind only)        -> file=<l1>|<l2>.. , file=- when empty
//   close                      release the consumer, delete the logger (its destructor calls stop()), read the file -> file=...
// free-running part (judged by the property oracle only):
//   thr file|pipe <levels> <flags> <nprod 1..8> <nlines> <after|mid|start> <percent>
//       nprod real producer threads send nlines lines `p<i>-<n>` each (level (n+i)%5, val = n%3==0), stop() is called
//       after all producers were joined / when <percent> of all lines were submitted / at the start signal; then the
//       producers are joined, the logger deleted and the file read.  Output: one summary per producer and one for the file.
#include "openup.hpp"
#include "hcommon.hpp"
#include "vclock.hpp"
#include <fix8/f8includes.hpp>
#include <sys/select.h>
#include <sys/time.h>
#include <sys/stat.h>
#include <sys/wait.h>
#include <unistd.h>
#include <fstream>
#include <map>
#include <set>
using namespace FIX8;

//-----------------------------------------------------------------------------------------
// consumer parking
static std::atomic<int> g_script(0);			// 1: sleeps of the consumer thread park
static std::mutex g_mx;
static std::condition_variable g_cv;
static bool g_parked(false), g_go(false);

static void real_nap(unsigned us)
{
	timeval tv; tv.tv_sec = 0; tv.tv_usec = us;
	::select(0, 0, 0, 0, &tv);
}

// "the writer thread has terminated": a thread-local object of the writer thread (created at its first sleep, which in
// scripted mode always happens before anything else) is destroyed at thread exit.  The cancellation token's
// thread_state() is not usable for this: request_stop() overwrites Stopped with Stopping when the thread ended first.
static std::atomic<int> g_writer_gone(0);
struct ExitMark { bool armed; ExitMark() : armed(false) {} ~ExitMark() { if (armed) g_writer_gone = 1; } };
static thread_local ExitMark t_mark;

static void on_sleep(long long, bool)
{
	if (!g_script) { real_nap(200); return; }
	t_mark.armed = true;
	std::unique_lock<std::mutex> lk(g_mx);
	g_parked = true;
	g_cv.notify_all();
	while (!g_go && g_script)
		g_cv.wait(lk);
	g_go = false;
	g_parked = false;
}

//-----------------------------------------------------------------------------------------
static std::string g_dir;
static unsigned g_serial(0);

struct Cfg { bool pipe; unsigned levels; bool s, d, l; };

static bool parse_cfg(const std::string& kind, const std::string& lv, const std::string& fl, Cfg& c)
{
	if (kind != "file" && kind != "pipe") return false;
	c.pipe = kind == "pipe";
	c.levels = std::stoul(lv);
	if (c.levels > 31) return false;
	c.s = c.d = c.l = false;
	if (fl != "-") for (size_t i(0); i < fl.size(); ++i)
	{
		if (fl[i] == 's') c.s = true; else if (fl[i] == 'd') c.d = true; else if (fl[i] == 'l') c.l = true; else return false;
	}
	return true;
}

static Logger *make_logger(const Cfg& c, std::string& path)
{
	std::ostringstream os; os << g_dir << "/lg" << ++g_serial << ".log";
	path = os.str();
	Logger::LogFlags fl;
	if (c.s) fl << Logger::sequence;
	if (c.d) fl << Logger::direction;
	if (c.l) fl << Logger::level;
	Logger::Levels lv;
	for (unsigned i(0); i < 5; ++i) if (c.levels & (1u << i)) lv << Logger::Level(i);
	if (c.pipe)
		return new PipeLogger("|cat > " + path, fl, lv);
	return new FileLogger(path, fl, lv, " ", Logger::LogPositions(), 0);
}

static std::vector<std::string> read_lines(const std::string& path)
{
	std::vector<std::string> r;
	std::ifstream ifs(path.c_str());
	std::string l;
	while (std::getline(ifs, l)) r.push_back(l);
	return r;
}

static std::string show_file(const std::string& path)
{
	const std::vector<std::string> ls(read_lines(path));
	if (ls.empty()) return "file=-";
	std::string r("file=");
	for (size_t i(0); i < ls.size(); ++i) { if (i) r += '|'; r += ls[i].empty() ? std::string("~") : ls[i]; }
	return r;
}

static bool exited(Logger *) { return g_writer_gone != 0; }

// wait until the consumer thread has left operator(); false = it did not within `secs`
static bool wait_exit(Logger *lg, unsigned secs)
{
	for (unsigned long i(0); i < 4000UL + secs * 2000UL; ++i)
	{
		if (exited(lg)) return true;
		if (i < 4000UL) sched_yield(); else real_nap(500);
	}
	return exited(lg);
}

static void release_consumer()
{
	std::unique_lock<std::mutex> lk(g_mx);
	g_script = 0;
	g_cv.notify_all();
}

static void wait_parked_or_exit(Logger *lg)
{
	std::unique_lock<std::mutex> lk(g_mx);
	while (!((g_parked && !g_go) || exited(lg)))
		g_cv.wait_for(lk, std::chrono::microseconds(100));	// the park notifies; the timeout is for the exit case
}

// After an explicit stop() the logger object is NOT destroyed: ~Logger() calls stop() again, i.e. pthread_join on a
// thread that was already joined (undefined; observed: SEGV in pthread_join once the dead thread's stack had been
// unmapped because other threads terminated in between).  The file is complete once the writer thread has been
// joined; for a PipeLogger the pipe is closed by hand so that the child finishes.
static void abandon_after_stop(Logger *lg, const Cfg& c)
{
	lg->get_stream().flush();
	if (c.pipe && lg->_ofs)
	{
		::close(static_cast<fptrostream *>(lg->_ofs)->getfileno());
		while (::wait(0) > 0) ;
	}
}

// run fn on a helper thread; false = it did not return within `secs` (the thread is then abandoned)
static bool with_timeout(std::function<void()> fn, unsigned secs)
{
	std::atomic<bool> *done(new std::atomic<bool>(false));
	std::thread t([fn, done]() { fn(); *done = true; });
	for (unsigned long i(0); !*done; ++i)
	{
		if (i < 4000UL) { sched_yield(); continue; }
		if (i > 4000UL + secs * 2000UL) { t.detach(); return false; }
		real_nap(500);
	}
	t.join();
	delete done;
	return true;
}

//-----------------------------------------------------------------------------------------
// free-running threaded scenario
struct ProdRes { unsigned long sent, filt, ret1, fret1, early; };

static std::string run_threads(const Cfg& c, unsigned nprod, unsigned nlines, const std::string& mode, unsigned percent)
{
	std::string path;
	g_script = 0;
	Logger *lg(make_logger(c, path));
	std::atomic<bool> go(false), stop_called(false);
	std::atomic<unsigned long> progress(0);
	std::vector<ProdRes> res(nprod);
	std::vector<std::thread> th;
	const unsigned levels(c.levels);
	for (unsigned p(0); p < nprod; ++p)
	{
		ProdRes *pr(&res[p]);
		pr->sent = pr->filt = pr->ret1 = pr->fret1 = pr->early = 0;
		th.push_back(std::thread([lg, &go, &stop_called, &progress, pr, p, nlines, levels]()
		{
			while (!go) sched_yield();
			for (unsigned n(0); n < nlines; ++n)
			{
				char buf[40]; std::snprintf(buf, sizeof(buf), "p%u-%u", p, n);
				const unsigned lev((n + p) % 5);
				const bool enabled((levels >> lev) & 1);
				const bool r(lg->send(buf, Logger::Level(lev), nullptr, n % 3 == 0 ? 1 : 0));
				const bool before(!stop_called.load());	// the call returned and stop() had not been called yet
				if (enabled) { ++pr->sent; if (r) ++pr->ret1; if (before) pr->early = pr->sent; }
				else { ++pr->filt; if (r) ++pr->fret1; }
				++progress;
			}
		}));
	}
	const unsigned long total((unsigned long)nprod * nlines), threshold(total * (percent > 100 ? 100 : percent) / 100);
	go = true;
	if (mode == "after")
		for (auto& t : th) t.join();
	else if (mode == "mid")
		while (progress < threshold) sched_yield();
	stop_called = true;
	// stop() on a helper thread so that a stop() that never returns is a result, not a hang of the harness
	const bool returned(with_timeout([lg]() { lg->stop(); }, 120));
	if (mode != "after")
		for (auto& t : th) t.join();
	if (!returned)
		return "hang";		// the logger is leaked on purpose
	abandon_after_stop(lg, c);

	// --- read the file and summarise
	const std::vector<std::string> ls(read_lines(path));
	::unlink(path.c_str());
	std::vector<std::map<unsigned, unsigned> > seen(nprod);	// n -> times
	std::vector<long> last(nprod, -1);
	std::vector<unsigned> ord(nprod, 1), ffound(nprod, 0);
	unsigned long junk(0), seqbad(0), cnt_in(0), cnt_out(0);
	for (size_t i(0); i < ls.size(); ++i)
	{
		const std::string& l(ls[i]);
		size_t pos(0);
		unsigned long seq(0);
		bool ok(true);
		std::string dir;
		if (c.s)
		{
			size_t e(pos);
			while (e < l.size() && l[e] >= '0' && l[e] <= '9') ++e;
			if (e == pos || e - pos < 7 || e >= l.size() || l[e] != ' ') ok = false;
			else { seq = std::stoul(l.substr(pos, e - pos)); pos = e + 1; }
		}
		if (ok && c.d)
		{
			if (l.size() < pos + 4 || l[pos + 3] != ' ') ok = false;
			else { dir = l.substr(pos, 3); pos += 4; if (dir != " in" && dir != "out") ok = false; }
		}
		std::string lname;
		if (ok && c.l)
		{
			if (l.size() < pos + 6 || l[pos + 5] != ' ') ok = false;
			else { lname = l.substr(pos, 5); pos += 6; }
		}
		unsigned p(0), n(0); char tail(0);
		if (ok && std::sscanf(l.c_str() + pos, "p%u-%u%c", &p, &n, &tail) != 2) ok = false;
		if (ok && (p >= nprod || n >= nlines)) ok = false;
		if (!ok) { ++junk; continue; }
		const unsigned lev((n + p) % 5);
		const bool in(n % 3 == 0);
		if (c.d && dir != (in ? " in" : "out")) ++junk;
		if (c.l && lname != Logger::_level_names[lev]) ++junk;
		if (!((levels >> lev) & 1)) ++ffound[p];
		if (c.s)
		{
			unsigned long& cnt(c.d && !in ? cnt_out : cnt_in);
			if (seq != ++cnt) { ++seqbad; cnt = seq; }
		}
		++seen[p][n];
		if ((long)n <= last[p]) ord[p] = 0;
		last[p] = n;
	}
	std::ostringstream os;
	for (unsigned p(0); p < nprod; ++p)
	{
		unsigned long found(0), dup(0), earlymiss(0), k(0);
		for (std::map<unsigned, unsigned>::const_iterator it(seen[p].begin()); it != seen[p].end(); ++it)
		{
			++found; if (it->second > 1) dup += it->second - 1;
		}
		// the first `early` enabled lines of this producer were accepted before stop() was called
		for (unsigned n(0); n < nlines && k < res[p].early; ++n)
		{
			if (!((levels >> ((n + p) % 5)) & 1)) continue;
			++k;
			if (!seen[p].count(n)) ++earlymiss;
		}
		os << 'p' << p << " sent=" << res[p].sent << " filt=" << res[p].filt << " ret1=" << res[p].ret1 << " fret1=" << res[p].fret1
			<< " early=" << res[p].early << " found=" << found << " earlymiss=" << earlymiss << " dup=" << dup << " ord=" << ord[p]
			<< " ffound=" << ffound[p] << ';';
	}
	os << "all lines=" << ls.size() << " seqbad=" << seqbad << " junk=" << junk;
	return os.str();
}

// a producer stalled between the ticket and the publication of its element (ops take / publish)
struct Pending { unsigned long pw, idx; void *data; };
static std::map<unsigned, Pending> g_pending;

//-----------------------------------------------------------------------------------------
int main()
{
	g_dir = scratch_dir("logh");
	vclock::sleep_hook = on_sleep;
	Logger *lg(0);
	std::string path;
	Cfg cfg;
	bool leaked(false), stopped(false);	// stopped: stop() was called explicitly on lg
	std::string line;
	while (std::getline(std::cin, line))
	{
		std::vector<std::string> w(split(line));
		try
		{
			if (w.size() == 4 && w[0] == "new" && parse_cfg(w[1], w[2], w[3], cfg))
			{
				if (lg) { release_consumer(); if (!stopped) delete lg; lg = 0; ::unlink(path.c_str()); }
				stopped = false;
				g_pending.clear();
				g_script = 1;
				g_writer_gone = 0;
				lg = make_logger(cfg, path);
				wait_parked_or_exit(lg);
				out("ok");
			}
			else if (w.size() == 5 && (w[0] == "send" || w[0] == "enq") && lg)
			{
				const unsigned lev(std::stoul(w[2])), val(std::stoul(w[3]));
				if (lev > 4) { out("bad-op"); continue; }
				std::string text(w[4] == "-" ? std::string() : w[4]);
				for (size_t i(0); i < text.size(); ++i) if (text[i] == '^') text[i] = '\n';	// `^` in a scripted text stands for a line feed
				const bool r(w[0] == "send" ? lg->send(text, Logger::Level(lev), nullptr, val) : lg->enqueue(text, Logger::Level(lev), nullptr, val));
				out(r ? "ret=1" : "ret=0");
			}
			else if (w.size() == 5 && w[0] == "take" && lg)
			{
				// Logger::send up to and including the ticket of the queue push (the CAS on preadP in ff::uMPMC_Ptr_Queue::push): the
				// producer is "descheduled" there, its element is not published yet.  `publish <pid>` performs the rest of that push.
				const unsigned pid(std::stoul(w[1])), lev(std::stoul(w[2])), val(std::stoul(w[3]));
				if (lev > 4 || g_pending.count(pid)) { out("bad-op"); continue; }
				const std::string text(w[4] == "-" ? std::string() : w[4]);
				if (!lg->is_loggable(Logger::Level(lev))) { out("ret=1"); continue; }	// send() returns true without touching the queue
				ff::uMPMC_Ptr_Queue& q(*reinterpret_cast<ff::uMPMC_Ptr_Queue *>(&lg->_msg_queue));	// ff_unbounded_queue<T> holds exactly this one member
				const Logger::LogElement le(f8_thread<Logger>::getid(), text, Logger::Level(lev), nullptr, val);
				void *data(new (::ff::ff_malloc(sizeof(Logger::LogElement))) Logger::LogElement(le));
				unsigned long pw, idx, seq;
				for (;;)
				{
					pw = atomic_long_read(&q.preadP);
					idx = pw & q.mask;
					seq = atomic_long_read(&q.seqP[idx]);
					if (pw == seq && abstraction_cas((volatile atom_t *)&q.preadP, (atom_t)(pw + 1), (atom_t)pw) == (atom_t)pw)
						break;
				}
				Pending pd; pd.pw = pw; pd.idx = idx; pd.data = data;
				g_pending[pid] = pd;
				out("ok");
			}
			else if (w.size() == 2 && w[0] == "publish" && lg)
			{
				const unsigned pid(std::stoul(w[1]));
				std::map<unsigned, Pending>::iterator it(g_pending.find(pid));
				if (it == g_pending.end()) { out("bad-op"); continue; }
				ff::uMPMC_Ptr_Queue& q(*reinterpret_cast<ff::uMPMC_Ptr_Queue *>(&lg->_msg_queue));	// ff_unbounded_queue<T> holds exactly this one member
				((ff::uSWSR_Ptr_Buffer *)(q.buf[it->second.idx]))->push(it->second.data);
				atomic_long_set(&q.seqP[it->second.idx], (it->second.pw + q.mask + 1));
				g_pending.erase(it);
				out("ret=1");
			}
			else if (w.size() == 3 && w[0] == "quick")
			{
				// <trials> times: create a logger, submit <n> lines from the creating thread and call stop() AT ONCE - the writer thread may not
				// have started running yet; every accepted line must be in the file when stop() has returned (free-running, no parking)
				if (lg) { release_consumer(); if (!stopped) delete lg; lg = 0; ::unlink(path.c_str()); }
				g_script = 0;
				const unsigned trials(std::stoul(w[1])), n(std::stoul(w[2]));
				unsigned good(0);
				for (unsigned tr(0); tr < trials; ++tr)
				{
					Cfg c2; parse_cfg("file", "31", "s", c2);
					std::string p2;
					Logger *l2(make_logger(c2, p2));
					unsigned acc(0);
					for (unsigned i(0); i < n; ++i) if (l2->send("q" + std::to_string(tr) + "-" + std::to_string(i), Logger::Info)) ++acc;
					l2->stop();
					const std::vector<std::string> ls(read_lines(p2));
					delete l2;
					::unlink(p2.c_str());
					if (acc == n && ls.size() == n) ++good;
				}
				out("quick ok=" + std::to_string(good) + " of " + std::to_string(trials));
				stopped = false;
			}
			else if (w.size() == 1 && w[0] == "djoin")
			{
				// regression of the repaired defect `destructor-joins-twice`: stop() joins the writer thread; the destructor of the thread
				// member used to join the same pthread_t again - by then the id may belong to an unrelated thread (glibc reuses the
				// descriptor), which the destructor then waits for, and whose owner's join fails
				if (lg) { release_consumer(); if (!stopped) delete lg; lg = 0; ::unlink(path.c_str()); }
				g_script = 0;
				Cfg c2; parse_cfg("file", "31", "s", c2);
				std::string p2;
				Logger *l2(make_logger(c2, p2));
				l2->send("one");
				l2->stop();
				pthread_t t;
				struct S { static void *nap(void *) { real_nap(300000); real_nap(300000); real_nap(300000); return 0; } };
				pthread_create(&t, 0, S::nap, 0);
				timeval a, b; ::gettimeofday(&a, 0);
				delete l2;
				::gettimeofday(&b, 0);
				const double dt((b.tv_sec - a.tv_sec) + (b.tv_usec - a.tv_usec) / 1e6);
				const int rc(pthread_join(t, 0));
				::unlink(p2.c_str());
				out(std::string("dtor=") + (dt < 0.5 ? "prompt" : "waited") + " join=" + std::to_string(rc));
				stopped = false;
			}
			else if (w.size() == 1 && w[0] == "run" && lg)
			{
				if (!exited(lg) && g_script)
				{
					{ std::unique_lock<std::mutex> lk(g_mx); g_go = true; g_cv.notify_all(); }
					wait_parked_or_exit(lg);
				}
				out(exited(lg) ? "exited" : "parked");
			}
			else if (w.size() == 1 && w[0] == "flag" && lg) { lg->_stopping.request_stop(); out("ok"); }
			else if (w.size() == 1 && w[0] == "sentinel" && lg) { lg->enqueue(std::string()); out("ok"); }
			else if (w.size() == 1 && w[0] == "join" && lg)
			{
				release_consumer();
				if (wait_exit(lg, 30)) out("joined");	// the thread has terminated: what _thread.join() (private member) waits for; the destructor joins it
				else { lg = 0; leaked = true; out("hang"); }
			}
			else if (w.size() == 1 && w[0] == "stop" && lg)
			{
				release_consumer();
				Logger *l2(lg);
				if (stopped) out("bad-op");
				else if (with_timeout([l2]() { l2->stop(); }, 30)) { stopped = true; out("stopped"); }
				else { lg = 0; leaked = true; out("hang"); }
			}
			else if (w.size() == 1 && w[0] == "dump" && lg)
				out(cfg.pipe ? "file=?" : show_file(path));
			else if (w.size() == 1 && w[0] == "close" && lg)
			{
				release_consumer();
				Logger *l2(lg);
				lg = 0;
				// the destructor calls stop(); for a PipeLogger it also waits for the child process
				if (stopped) { abandon_after_stop(l2, cfg); out(show_file(path)); }
				else if (with_timeout([l2]() { delete l2; }, 30)) out(show_file(path));
				else { leaked = true; out(show_file(path) + " hang"); }
				stopped = false;
				::unlink(path.c_str());
			}
			else if (w.size() == 8 && w[0] == "thr" && parse_cfg(w[1], w[2], w[3], cfg))
			{
				const unsigned np(std::stoul(w[4])), nl(std::stoul(w[5])), pc(std::stoul(w[7]));
				if (np < 1 || np > 8 || nl > 100000 || (w[6] != "after" && w[6] != "mid" && w[6] != "start")) { out("bad-op"); continue; }
				if (lg) { release_consumer(); if (!stopped) delete lg; lg = 0; stopped = false; ::unlink(path.c_str()); }
				const std::string r(run_threads(cfg, np, nl, w[6], pc));
				if (r == "hang") leaked = true;
				out(r);
			}
			else out("bad-op");
		}
		catch (const std::exception& e) { out(std::string("throw:") + typeid(e).name()); }
	}
	if (lg && !leaked && !stopped) { release_consumer(); delete lg; ::unlink(path.c_str()); }
	::rmdir(g_dir.c_str());
	std::fflush(stdout);
	_exit(0);
}
