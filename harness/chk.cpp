// C07 harness: Message::calc_chksum on an exactly-sized heap buffer whose surroundings are poisoned.
// protocol: "chk <hexbuf> <off> <len|-1>"  ->  "v=<value> oob=0"   (an ASan abort = oob)
#include "hcommon.hpp"
#include <fix8/f8includes.hpp>
#include <sanitizer/asan_interface.h>

int main()
{
	std::string line;
	while (std::getline(std::cin, line))
	{
		std::vector<std::string> w(split(line));
		if (w.size() != 4 || w[0] != "chk") { out("bad-op"); continue; }
		std::string buf;
		if (!unhex(w[1], buf)) { out("bad-op"); continue; }
		const unsigned off(std::stoul(w[2]));
		const int len(std::stoi(w[3]));
		// region: [guard 64][payload][guard 64]; guards poisoned so any access is reported
		const size_t sz(buf.size());
		char *mem(new char[sz + 128]);
		std::memset(mem, 0x5a, sz + 128);
		std::memcpy(mem + 64, buf.data(), sz);
		ASAN_POISON_MEMORY_REGION(mem, 64);
		ASAN_POISON_MEMORY_REGION(mem + 64 + sz, 64);
		// bytes of the buffer that lie outside [off, off+elen) are poisoned too
		const size_t elen(len >= 0 ? size_t(len) : (off <= sz ? sz - off : 0));
		if (off <= sz)
		{
			ASAN_POISON_MEMORY_REGION(mem + 64, off);
			if (off + elen < sz)
				ASAN_POISON_MEMORY_REGION(mem + 64 + off + elen, sz - off - elen);
		}
		const unsigned v(FIX8::Message::calc_chksum(mem + 64, sz, off, len));
		ASAN_UNPOISON_MEMORY_REGION(mem, sz + 128);
		delete[] mem;
		std::ostringstream os;
		os << "v=" << v << " oob=0";
		out(os.str());
	}
	return 0;
}
