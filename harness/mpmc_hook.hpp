// harness-only interposition for ff::uMPMC_Ptr_Queue (include/fix8/ff/mpmc/MPMCqueues.hpp): a yield point in
// front of EVERY shared-memory access of push/pop, without touching /repo.
//
// How: every header MPMCqueues.hpp depends on is included first (their include guards keep them unaffected), then
// atomic_long_read / atomic_long_set / abstraction_cas are shadowed by function-like macros that call
// verif_mpmc::yield_point() before the real primitive, and uSWSR_Ptr_Buffer is shadowed by a subclass whose push/pop
// yield before delegating to the real inner buffer.  Only the text of MPMCqueues.hpp is compiled under these macros;
// they are removed again afterwards.  private/protected of that header are opened so that preadP/preadC/seqP/seqC can
// be printed.  With no hook installed (verif_mpmc::hook() == nullptr) the code runs unchanged.
//
// Must be included before anything else includes MPMCqueues.hpp.
#ifndef VERIF_MPMC_HOOK_HPP
#define VERIF_MPMC_HOOK_HPP
#include <fix8/f8config.h>
#include <cstdlib>
#include <cstdio>
#include <cstring>
#include <cassert>
#include <vector>
#include <string>
#include <new>
#include <sched.h>
#include <fix8/ff/allocator.hpp>
#include <fix8/ff/buffer.hpp>
#include <fix8/ff/ubuffer.hpp>
#include <fix8/ff/sysdep.h>
#include <fix8/ff/platforms/platform.h>
#include <fix8/ff/mpmc/asm/abstraction_dcas.h>
#include <fix8/ff/mpmc/asm/atomic.h>
#include <fix8/ff/spin-lock.hpp>
#ifdef FF_MPMCQUEUE_HPP
#error "mpmc_hook.hpp must come before the first inclusion of fix8/ff/mpmc/MPMCqueues.hpp"
#endif
#if defined(atomic_long_read) || defined(atomic_long_set) || defined(abstraction_cas)
#error "the atomic primitives are macros in this configuration: the interposition of mpmc_hook.hpp does not apply"
#endif

namespace verif_mpmc
{
	typedef void (*yield_fn)();
	inline yield_fn& hook() { static yield_fn f = 0; return f; }
	inline void yield_point() { yield_fn f(hook()); if (f) f(); }
}

namespace ff
{
	// the inner single-writer/single-reader buffer, with a yield point in front of its push and pop
	class VerifYieldBuffer : public uSWSR_Ptr_Buffer
	{
	public:
		VerifYieldBuffer(unsigned long n, const bool fixed = false, const bool fillcache = false) : uSWSR_Ptr_Buffer(n, fixed, fillcache) {}
		inline bool push(void *const data)
		{
			::verif_mpmc::yield_point();
			const bool r(uSWSR_Ptr_Buffer::push(data));
			if (r) __sync_fetch_and_add(&verif_pushed, 1UL);
			return r;
		}
		inline bool pop(void **data)
		{
			::verif_mpmc::yield_point();
			const bool r(uSWSR_Ptr_Buffer::pop(data));
			if (r) __sync_fetch_and_add(&verif_popped, 1UL);
			return r;
		}
		// elements the real buffer accepted minus elements it handed out (uSWSR_Ptr_Buffer::length() is not used: its
		// assertion `in_use_buffers>2` fires as soon as a second internal buffer is in use)
		unsigned long verif_length() const { return verif_pushed - verif_popped; }
	private:
		unsigned long verif_pushed = 0, verif_popped = 0;
	};
}

#define atomic_long_read(p) (::verif_mpmc::yield_point(), atomic_long_read(p))
#define atomic_long_set(p, v) (::verif_mpmc::yield_point(), atomic_long_set(p, v))
#define abstraction_cas(d, e, c) (::verif_mpmc::yield_point(), abstraction_cas(d, e, c))
#define uSWSR_Ptr_Buffer VerifYieldBuffer
#define private public
#define protected public
#include <fix8/ff/mpmc/MPMCqueues.hpp>
#undef private
#undef protected
#undef uSWSR_Ptr_Buffer
#undef abstraction_cas
#undef atomic_long_set
#undef atomic_long_read
#endif
