// C30 correspondence harness: the REAL ff::uMPMC_Ptr_Queue (through FIX8::ff_unbounded_queue when the default
// geometry is asked for) under a cooperative scheduler, plus a free-running stress mode.
//
//   new <nqueues> <innersize>   fresh queue; `new 0 0` = default geometry, reached through FIX8::ff_unbounded_queue<Item*>
//   push <t> <d> | pop <t>      logical thread t (a real thread) starts an operation and parks at its first yield point
//   run <t>                     thread t performs exactly one shared-memory access (runs up to the next yield point / return)
//   stress <np> <nc> <items> <nqueues> <innersize> <chaos> <seed>   real threads, no yield control
//
// answer of the scheduled commands: `<result> P=.. C=.. sP=.. sC=.. len=..` (see lean/Drivers/MpmcD.lean)
// answer of stress: `stress left=<k> | <consumer 0 log> | <consumer 1 log> ...`, a log is `p.seq,p.seq,...` in pop order
#include <unistd.h>
#include "mpmc_hook.hpp"
#define class struct		// ff_unbounded_queue keeps its queue in the default-private part of a `class`; the header includes nothing
#include <fix8/ff_wrapper.hpp>
#undef class
#include <thread>
#include <mutex>
#include <condition_variable>
#include <atomic>
#include <memory>
#include <cstdint>
#include <time.h>
#include <semaphore.h>
#include "hcommon.hpp"

struct Item;	// payloads are small integers carried as pointer values, never dereferenced

//---------------------------------------------------------------------------------------------------------------
// the queue under test
struct Queue
{
	std::unique_ptr<FIX8::ff_unbounded_queue<Item*>> wrapped;
	std::unique_ptr<ff::uMPMC_Ptr_Queue> direct;

	Queue(unsigned long nqueues, unsigned long innersize)
	{
		if (nqueues == 0 && innersize == 0)
			wrapped.reset(new FIX8::ff_unbounded_queue<Item*>);	// constructor runs _queue.init()
		else
		{
			direct.reset(new ff::uMPMC_Ptr_Queue);
			direct->init(nqueues, innersize);
		}
	}
	ff::uMPMC_Ptr_Queue& raw() { return wrapped ? wrapped->_queue : *direct; }
	void push(unsigned long d)
	{
		if (wrapped) wrapped->try_push(reinterpret_cast<Item*>(static_cast<uintptr_t>(d)));
		else direct->push(reinterpret_cast<void*>(static_cast<uintptr_t>(d)));
	}
	bool pop(unsigned long& d)
	{
		bool r;
		if (wrapped) { Item *p(nullptr); r = wrapped->try_pop(p); d = static_cast<unsigned long>(reinterpret_cast<uintptr_t>(p)); }
		else { void *p(nullptr); r = direct->pop(&p); d = static_cast<unsigned long>(reinterpret_cast<uintptr_t>(p)); }
		return r;
	}
	// no allocation on this path (under ASan every allocation records a stack trace; this runs once per step)
	const char *state()
	{
		ff::uMPMC_Ptr_Queue& q(raw());
		const unsigned long n(q.mask + 1);
		static char b[8192];
		size_t k(0);
		auto num = [&](unsigned long v) { char t[24]; int m(0); do { t[m++] = char('0' + v % 10); v /= 10; } while (v); while (m && k < sizeof(b) - 2) b[k++] = t[--m]; };
		auto str = [&](const char *z) { while (*z && k < sizeof(b) - 2) b[k++] = *z++; };
		str("P="); num(atomic_long_read(&q.preadP)); str(" C="); num(atomic_long_read(&q.preadC)); str(" sP=");
		for (unsigned long i(0); i < n; ++i) { if (i) str(","); num(atomic_long_read(&q.seqP[i])); }
		str(" sC=");
		for (unsigned long i(0); i < n; ++i) { if (i) str(","); num(atomic_long_read(&q.seqC[i])); }
		str(" len=");
		for (unsigned long i(0); i < n; ++i) { if (i) str(","); num(static_cast<ff::VerifYieldBuffer*>(q.buf[i])->verif_length()); }
		b[k] = 0;
		return b;
	}
};

//---------------------------------------------------------------------------------------------------------------
// cooperative scheduler: a worker runs only between resume() and its next park().  Hand-over by semaphores: the
// controller posts the worker's `go` and waits on PARKED (spinning briefly first: a step is a few instructions long);
// the worker posts PARKED and sleeps on its `go`.  The semaphores order all accesses to the Worker fields.
static sem_t PARKED;

struct Worker
{
	int id;
	std::thread th;
	enum { NONE, PUSH, POP, QUIT } cmd = NONE;
	unsigned long arg = 0;
	bool inop = false;
	char result[40];
	Queue *q = nullptr;
	sem_t go;
	Worker() { sem_init(&go, 0, 0); }
	~Worker() { sem_destroy(&go); }
};

static thread_local Worker *self = nullptr;
static thread_local bool chaos = false;
static thread_local uint64_t chaos_rng = 0;

static void park(Worker *w)
{
	sem_post(&PARKED);
	while (sem_wait(&w->go) != 0) ;
}

static void yield_cb()
{
	if (Worker *w = self)
	{
		if (w->inop) park(w);
		return;
	}
	if (chaos)
	{
		chaos_rng ^= chaos_rng << 13; chaos_rng ^= chaos_rng >> 7; chaos_rng ^= chaos_rng << 17;
		const unsigned r(chaos_rng & 0xff);
		if (r < 40) sched_yield();
		else if (r == 41) { struct timespec ts = { 0, 20000 }; nanosleep(&ts, nullptr); }
	}
}

static void worker_main(Worker *w)
{
	self = w;
	for (;;)
	{
		park(w);
		const int cmd(w->cmd);
		const unsigned long arg(w->arg);
		if (cmd == Worker::QUIT) { sem_post(&PARKED); return; }
		w->inop = true;
		char res[40];
		if (cmd == Worker::PUSH) { w->q->push(arg); std::strcpy(res, "pushed"); }
		else
		{
			unsigned long d(0);
			if (!w->q->pop(d)) std::strcpy(res, "empty");
			else if (d == 0) std::strcpy(res, "pop=nil");
			else std::snprintf(res, sizeof(res), "pop=%lu", d);
		}
		std::strcpy(w->result, res);
		w->inop = false;
	}
}

// one answer line, written without touching the heap
static void answer(const char *res, Queue& q)
{
	std::fputs(res, stdout); std::fputc(' ', stdout); std::fputs(q.state(), stdout); std::fputc('\n', stdout); std::fflush(stdout);
}

static void wait_parked()
{
	for (unsigned spin(0); spin < 4000; ++spin)
	{
		if (sem_trywait(&PARKED) == 0) return;
		__builtin_ia32_pause();
	}
	while (sem_wait(&PARKED) != 0) ;
}

// let w run until it parks again
static void resume(Worker *w)
{
	sem_post(&w->go);
	wait_parked();
}

struct Sched
{
	std::unique_ptr<Queue> q;
	std::vector<Worker*> ws;

	Worker *get(unsigned t)
	{
		if (t >= 64) return nullptr;
		while (ws.size() <= t) ws.push_back(nullptr);
		if (!ws[t])
		{
			Worker *w(new Worker);
			w->id = t; w->q = q.get();
			w->th = std::thread(worker_main, w);
			wait_parked();
			ws[t] = w;
		}
		return ws[t];
	}
	// finish what is in flight (bounded).  The worker threads are kept for the next queue; a worker that cannot finish
	// is abandoned together with its queue.
	void settle()
	{
		for (unsigned round(0); round < 300; ++round)
		{
			bool any(false);
			for (Worker *w : ws) if (w && w->inop) { any = true; resume(w); }
			if (!any) break;
		}
		bool leaked(false);
		for (Worker *&w : ws)
			if (w && w->inop) { w->th.detach(); w = nullptr; leaked = true; }
		if (leaked) q.release(); else q.reset();
	}
	void fresh(unsigned long nqueues, unsigned long innersize)
	{
		settle();
		q.reset(new Queue(nqueues, innersize));
		for (Worker *w : ws) if (w) w->q = q.get();
	}
	void quit()
	{
		settle();
		for (Worker *w : ws)
		{
			if (!w) continue;
			w->cmd = Worker::QUIT;
			resume(w);
			w->th.join();
			delete w;
		}
		ws.clear();
	}
};

//---------------------------------------------------------------------------------------------------------------
// free-running stress: np producers push (p, 1..items), nc consumers pop until everything produced has been seen
static std::string stress(unsigned np, unsigned nc, unsigned long items, unsigned long nqueues, unsigned long innersize, bool ch, unsigned long seed)
{
	if (np < 1 || nc < 1 || np > 64 || nc > 64 || items > 10000000) return "bad";
	Queue q(nqueues, innersize);
	std::atomic<int> running(np);
	std::atomic<bool> start(false);
	std::atomic<int> finished(0);
	// per-thread progress counters, written with plain (relaxed) stores so that the bookkeeping adds no fence to the code under test
	struct alignas(64) Cnt { std::atomic<unsigned long> v; Cnt() : v(0) {} };
	std::vector<Cnt> cnt(np + nc);
	auto tick = [&cnt](unsigned i) { cnt[i].v.store(cnt[i].v.load(std::memory_order_relaxed) + 1, std::memory_order_relaxed); };
	auto total = [&cnt] { unsigned long t(0); for (auto& c : cnt) t += c.v.load(std::memory_order_relaxed); return t; };
	std::vector<std::vector<unsigned long>> logs(nc);
	std::vector<std::thread> th;
	for (unsigned c(0); c < nc; ++c)
		th.emplace_back([&, c] {
			chaos = ch; chaos_rng = seed * 7919 + c * 104729 + 1;
			while (!start.load()) sched_yield();
			for (;;)
			{
				const bool done(running.load() == 0);	// sampled BEFORE the pop
				unsigned long d(0);
				if (!q.pop(d))
				{
					if (done) break;	// every push had completed before this pop started and it found nothing
					sched_yield();		// as ff_unbounded_queue::pop does
					continue;
				}
				logs[c].push_back(d);
				tick(c);
			}
			++finished;
		});
	for (unsigned p(0); p < np; ++p)
		th.emplace_back([&, p] {
			chaos = ch; chaos_rng = seed * 15485863 + p * 32452843 + 3;
			while (!start.load()) sched_yield();
			for (unsigned long i(1); i <= items; ++i)
			{
				q.push((static_cast<unsigned long>(p + 1) << 32) | i);
				tick(nc + p);
			}
			--running;
			++finished;
		});
	start = true;
	// watchdog: a queue that stops making progress (threads spinning for ever) is reported as a result, not as a hung
	// harness.  Progress = completed pushes + successful pops; slowness (TSan, loaded machine) is not a hang.
	unsigned long seen(total());
	for (unsigned quiet(0); finished.load() < static_cast<int>(np + nc); )
	{
		struct timespec ts = { 0, 5000000 };
		nanosleep(&ts, nullptr);
		const unsigned long now(total());
		if (now != seen) { seen = now; quiet = 0; continue; }
		if (++quiet > 6000)		// 30 s without a single completed operation
		{
			out("stress hang: no push or pop completed for 30 s, " + std::to_string(finished.load()) + " of " + std::to_string(np + nc) + " threads finished");
			std::_Exit(9);
		}
	}
	for (auto& t : th) t.join();
	unsigned long left(0), d;
	while (q.pop(d)) ++left;
	std::ostringstream os;
	os << "stress left=" << left;
	for (unsigned c(0); c < nc; ++c)
	{
		os << " |";
		for (size_t k(0); k < logs[c].size(); ++k)
			os << (k ? "," : " ") << ((logs[c][k] >> 32) - 1) << '.' << (logs[c][k] & 0xffffffffUL);
	}
	return os.str();
}

//---------------------------------------------------------------------------------------------------------------
int main()
{
	sem_init(&PARKED, 0, 0);
	verif_mpmc::hook() = yield_cb;
	Sched s;
	std::string line;
	while (std::getline(std::cin, line))
	{
		const std::vector<std::string> w(split(line));
		try
		{
			if (w.size() == 3 && w[0] == "new")
			{
				s.fresh(std::stoul(w[1]), std::stoul(w[2]));
				answer("new", *s.q);
			}
			else if (w.size() == 8 && w[0] == "stress")
				out(stress(std::stoul(w[1]), std::stoul(w[2]), std::stoul(w[3]), std::stoul(w[4]), std::stoul(w[5]), w[6] == "1", std::stoul(w[7])));
			else if (!s.q)
				out("bad");
			else if ((w.size() == 3 && w[0] == "push") || (w.size() == 2 && w[0] == "pop"))
			{
				Worker *wk(s.get(std::stoul(w[1])));
				const unsigned long d(w[0] == "push" ? std::stoul(w[2]) : 1);
				if (!wk || d == 0) { out("bad"); continue; }
				if (wk->inop) { answer("bad", *s.q); continue; }
				wk->cmd = w[0] == "push" ? Worker::PUSH : Worker::POP;
				wk->arg = d;
				resume(wk);		// parks in front of its first shared access
				answer("-", *s.q);
			}
			else if (w.size() == 2 && w[0] == "run")
			{
				Worker *wk(s.get(std::stoul(w[1])));
				if (!wk) { out("bad"); continue; }
				if (!wk->inop) { answer("bad", *s.q); continue; }
				resume(wk);
				answer(wk->inop ? "-" : wk->result, *s.q);
			}
			else
				out("bad");
		}
		catch (const std::exception&) { out("bad"); }
	}
	s.quit();
	std::fflush(stdout);
	_exit(0);
}
