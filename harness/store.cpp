// C26 / C27 / C29 harness: MemoryPersister and FilePersister driven by a line protocol.
//   open mem|file [rot]  put <seq> <hex>  cput <a> <b>  get <seq>  cget  last  near <req>  range <from> <to>
//   budget <k>   : after k further completed write() calls on the store's files every write fails (crash point)
//   reopen       : destroy the persister object and open the same files again (no purge)
//   purge <rot> <existing-generations...> : C29 - create the listed generations, open with purge+rotation, list the directory
#include "hcommon.hpp"
#include "openup.hpp"
#include <fix8/f8includes.hpp>
#include "utest_types.hpp"
#include "utest_router.hpp"
#include "utest_classes.hpp"
#include <dlfcn.h>
#include <dirent.h>
#include <sys/stat.h>
using namespace FIX8;

static long g_budget(-1);		// remaining writes allowed on tracked fds (-1 unlimited)
static int g_fds[2] = { -1, -1 };
static unsigned long g_writes(0), g_failed(0);

extern "C" ssize_t write(int fd, const void *buf, size_t n)
{
	typedef ssize_t (*wfn)(int, const void *, size_t);
	static wfn real((wfn)dlsym(RTLD_NEXT, "write"));
	if (fd >= 0 && (fd == g_fds[0] || fd == g_fds[1]))
	{
		if (g_budget == 0) { ++g_failed; errno = EIO; return -1; }
		if (g_budget > 0) --g_budget;
		++g_writes;
	}
	return real(fd, buf, n);
}

static int fd_of(const std::string& suffix)
{
	// the persister's descriptors are private: find them through /proc/self/fd
	DIR *dp(opendir("/proc/self/fd"));
	int found(-1);
	while (dirent *e = readdir(dp))
	{
		char buf[512];
		const std::string lnk(std::string("/proc/self/fd/") + e->d_name);
		const ssize_t n(readlink(lnk.c_str(), buf, sizeof(buf) - 1));
		if (n <= 0) continue;
		const std::string t(buf, n);
		if (t.size() >= suffix.size() && t.compare(t.size() - suffix.size(), suffix.size(), suffix) == 0)
			found = std::atoi(e->d_name);
	}
	closedir(dp);
	return found;
}

struct FP : public FilePersister
{
	FP(unsigned rot=0) : FilePersister(rot) {}
	int fod() const { return fd_of("/st.db"); }
	int iod() const { return fd_of("/st.db.idx"); }
};

class Sess : public Session
{
public:
	std::vector<unsigned> _visited; bool _done;
	Sess(const SessionID& sid) : Session(UTEST::ctx(), sid, nullptr, nullptr, nullptr), _done(false) {}
	bool handle_application(const unsigned, const Message *&) { return true; }
	bool cb(const Session::SequencePair& with, Session::RetransmissionContext& rctx)
	{
		if (rctx._no_more_records) { _done = true; return true; }
		_visited.push_back(with.first);
		_payloads.push_back(with.second);
		return true;
	}
	std::vector<std::string> _payloads;
};

static std::string g_dir;
static void rmtree(const std::string& d)
{
	DIR *dp(opendir(d.c_str()));
	if (!dp) return;
	while (dirent *e = readdir(dp))
	{
		const std::string n(e->d_name);
		if (n == "." || n == "..") continue;
		::unlink((d + "/" + n).c_str());
	}
	closedir(dp);
}

int main()
{
	// the global logger is not the subject here: library threads that log through it allocate from FastFlow's per-thread allocator, whose
	// deregistration at thread exit is occasionally reported by ASan (heap-use-after-free in ff/allocator.hpp) - keep it silent
	FIX8::GlobalLogger::set_levels(FIX8::Logger::Levels(FIX8::Logger::None));
	g_dir = scratch_dir("store");
	Persister *p(nullptr); FP *fp(nullptr); bool isfile(false); unsigned rot(0);
	Sess *sess(new Sess(SessionID(f8String("FIX.4.2"), f8String("A"), f8String("B"))));
	std::string line;
	while (std::getline(std::cin, line))
	{
		std::vector<std::string> w(split(line));
		std::ostringstream os;
		if (w.empty()) { out("bad-op"); continue; }
		if (w[0] == "open" && w.size() >= 2)
		{
			delete p; p = nullptr; fp = nullptr; g_fds[0] = g_fds[1] = -1; g_budget = -1;
			rmtree(g_dir);
			isfile = w[1] == "file";
			rot = w.size() > 2 ? std::stoul(w[2]) : 0;
			if (isfile) { fp = new FP(rot); p = fp; const bool ok(fp->initialise(g_dir, "st.db", true)); g_fds[0] = fp->fod(); g_fds[1] = fp->iod(); os << (ok ? "ok" : "fail"); }
			else { MemoryPersister *mp(new MemoryPersister); p = mp; os << "ok"; }
		}
		else if (w[0] == "reopen")
		{
			if (!isfile || !p) { out("ok"); continue; }
			delete p; g_fds[0] = g_fds[1] = -1; g_budget = -1;
			fp = new FP(rot); p = fp;
			const bool ok(fp->initialise(g_dir, "st.db", false));
			g_fds[0] = fp->fod(); g_fds[1] = fp->iod();
			os << (ok ? "ok" : "fail");
		}
		else if (w[0] == "budget" && w.size() == 2) { g_budget = std::stol(w[1]); os << "ok"; }
		else if (!p) os << "no-store";
		else if (w[0] == "put" && w.size() == 3) { std::string m; unhex(w[2], m); os << (p->put(std::stoul(w[1]), m) ? "true" : "false"); }
		else if (w[0] == "cput" && w.size() == 3) os << (p->put(unsigned(std::stoul(w[1])), unsigned(std::stoul(w[2]))) ? "true" : "false");
		else if (w[0] == "get" && w.size() == 2) { std::string m; if (p->get(std::stoul(w[1]), m)) os << "msg " << hex(m); else os << "msg none"; }
		else if (w[0] == "cget") { unsigned a(0), b(0); if (p->get(a, b)) os << "ctrl " << a << ',' << b; else os << "ctrl none"; }
		else if (w[0] == "last") { unsigned l(0); p->get_last_seqnum(l); os << "num " << l; }
		else if (w[0] == "near" && w.size() == 2) { unsigned l(0); p->get_last_seqnum(l); os << "num " << p->find_nearest_highest_seqnum(std::stoul(w[1]), l); }
		else if (w[0] == "range" && w.size() == 3)
		{
			sess->_visited.clear(); sess->_payloads.clear(); sess->_done = false;
			p->get(std::stoul(w[1]), std::stoul(w[2]), *sess, static_cast<bool (Session::*)(const Session::SequencePair&, Session::RetransmissionContext&)>(&Sess::cb));
			os << "visit";
			bool same(true);
			for (size_t i(0); i < sess->_visited.size(); ++i)
			{
				os << ' ' << sess->_visited[i];
				std::string m; if (!p->get(sess->_visited[i], m) || m != sess->_payloads[i]) same = false;
			}
			os << (sess->_done ? " done" : " notdone") << (same ? "" : " payload-differs");
		}
		else os << "bad-op";
		out(os.str());
	}
	delete p;
	rmtree(g_dir); ::rmdir(g_dir.c_str());
	std::fflush(stdout);
	_exit(0);	// skip ~Session's one second sleep
}
