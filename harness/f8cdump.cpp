// C13 / C14 harness: generic dumper + codec driver over ANY schema compiled by f8c with `-n TVS`.
// Linked against the three generated translation units of one schema; everything is reached through the
// generated F8MetaCntx (extern "C" TVS_ctx()), never through generated class names.
//   f8cdump dump            -> canonical metadata, one item per line:
//        ver <version> <beginstring-hex>
//        cn <component names, table order, hex>            (index 1..)
//        fld <number> <name-hex> [<set|range> <ftype> <n> <value>:<description-hex> ...]
//        msg <msgtype-hex> <name-hex> <admin 0|1> <traits>
//      traits := trait{;trait}   trait := tag,ftype,pos,component,flags-with-`present`-cleared[{traits of the group element}]
//   stream:  "rt <msgtype-hex> <tree>"  build the message through the generated factories, encode, decode with
//            Message::factory, re-encode  ->  "wire=<hex> dec=<tree> re=<0|1>"   |  "throw:<class>:<what-hex>"
//            "miss <msgtype-hex> <tree>" -> build, then report find_missing() of the body ("missing=<tag>")
//      tree := item{,item} | "-"     item := tag=<value-hex> | tag[tree/tree/...]   (a group: count field is added by the harness)
#include "hcommon.hpp"
#include <memory>
#include <cmath>
#include <typeinfo>
#include <fix8/f8includes.hpp>
using namespace FIX8;

extern "C" const F8MetaCntx& TVS_ctx();

static std::string cstr(const char *p) { return p ? std::string(p) : std::string(); }

//-------------------------------------------------------------------------------------------------
static unsigned g_maxcomp(0);

static void dump_traits(const MessageBase *mb, std::ostream& os, int depth)
{
	bool first(true);
	const Presence& pr(mb->get_fp().get_presence());
	for (Presence::const_iterator it(pr.begin()); it != pr.end(); ++it)
	{
		if (!first) os << ';';
		first = false;
		if (it->_component > g_maxcomp) g_maxcomp = it->_component;
		os << it->_fnum << ',' << int(it->_ftype) << ',' << it->_pos << ',' << it->_component << ','
			<< (it->_field_traits.get() & ~(1u << FieldTrait::present));
		if (it->_field_traits.has(FieldTrait::group))
		{
			os << '{';
			GroupBase *gb(mb->find_group(it->_fnum));
			std::unique_ptr<GroupBase> made;
			if (!gb && depth < 12)
			{
				// deep construction did not provide the nested group object: ask the factory of this level
				made.reset(const_cast<MessageBase *>(mb)->create_nested_group(it->_fnum));
				gb = made.get();
			}
			if (!gb) os << '?';
			else if (depth >= 12) os << "deep";
			else
			{
				std::unique_ptr<MessageBase> el(gb->create_group(true));
				if (!el.get()) os << '?';
				else dump_traits(el.get(), os, depth + 1);
			}
			os << '}';
		}
	}
}

static void dump()
{
	const F8MetaCntx& c(TVS_ctx());
	{
		std::ostringstream os;
		os << "ver " << c._version << ' ' << hex(c._beginStr);
		out(os.str());
	}
	for (unsigned i(0); i < c._be.size(); ++i)
	{
		const FieldTable::Pair *pp(c._be.at(i));
		std::ostringstream os;
		os << "fld " << pp->_key << ' ' << hex(cstr(pp->_value._name));
		if (pp->_value._fnum != pp->_key) os << " fnum-differs=" << pp->_value._fnum;
		const RealmBase *r(pp->_value._rlm);
		if (r)
		{
			os << ' ' << (r->_dtype == RealmBase::dt_set ? "set" : "range") << ' ' << int(r->_ftype) << ' ' << r->_sz;
			for (int k(0); k < r->_sz; ++k)
			{
				if (FieldTrait::is_int(r->_ftype)) os << ' ' << r->get_rlm_val<int>(k);
				else if (FieldTrait::is_char(r->_ftype)) os << ' ' << int((unsigned char)r->get_rlm_val<char>(k));
				else if (FieldTrait::is_float(r->_ftype)) os << ' ' << (long long)std::llround(r->get_rlm_val<fp_type>(k) * 10000.0);
				else if (FieldTrait::is_string(r->_ftype)) os << ' ' << hex(r->get_rlm_val<f8String>(k));
				else os << " ?";
				os << ':' << hex(cstr(r->_descriptions[k]));
			}
		}
		out(os.str());
	}
	std::vector<std::string> mlines;
	for (unsigned i(0); i < c._bme.size(); ++i)
	{
		const MsgTable::Pair *pp(c._bme.at(i));
		const std::string key(cstr(pp->_key));
		std::ostringstream os;
		os << "msg " << hex(key) << ' ' << hex(cstr(pp->_value._name)) << ' ';
		if (key == "header" || key == "trailer")
		{
			std::unique_ptr<MessageBase> m(reinterpret_cast<MessageBase *>(key == "header" ? c._mk_hdr(true) : c._mk_trl(true)));
			os << "0 ";
			dump_traits(m.get(), os, 0);
		}
		else
		{
			std::unique_ptr<Message> m(pp->_value._create._do(true));
			os << (m->is_admin() ? 1 : 0) << ' ';
			if (m->get_msgtype() != key) os << "msgtype-differs=" << hex(m->get_msgtype()) << ' ';
			dump_traits(m.get(), os, 0);
		}
		mlines.push_back(os.str());
	}
	{
		// component name table: cn[0] is "", its length is not stored; the largest index used by any trait bounds what is read
		std::ostringstream os;
		os << "cn";
		for (unsigned i(1); i <= g_maxcomp; ++i)
			os << ' ' << hex(cstr(c._cn[i]));
		out(os.str());
	}
	for (size_t i(0); i < mlines.size(); ++i)
		out(mlines[i]);
}

//-------------------------------------------------------------------------------------------------
// tree parser
struct Node
{
	unsigned tag; bool isgroup; std::string val; std::vector<std::vector<Node> > els;
	Node() : tag(), isgroup() {}
};

static bool parse_tree(const std::string& s, size_t& p, std::vector<Node>& to);

static bool parse_item(const std::string& s, size_t& p, Node& n)
{
	size_t q(p);
	while (q < s.size() && isdigit((unsigned char)s[q])) ++q;
	if (q == p || q >= s.size()) return false;
	n.tag = std::stoul(s.substr(p, q - p));
	if (s[q] == '=')
	{
		size_t e(q + 1);
		while (e < s.size() && (isxdigit((unsigned char)s[e]) || s[e] == '-')) ++e;
		if (!unhex(s.substr(q + 1, e - q - 1), n.val)) return false;
		p = e;
		return true;
	}
	if (s[q] != '[') return false;
	n.isgroup = true;
	p = q + 1;
	if (p < s.size() && s[p] == ']') { ++p; return true; }
	for (;;)
	{
		std::vector<Node> el;
		if (!parse_tree(s, p, el)) return false;
		n.els.push_back(el);
		if (p >= s.size()) return false;
		if (s[p] == '/') { ++p; continue; }
		if (s[p] == ']') { ++p; return true; }
		return false;
	}
}

static bool parse_tree(const std::string& s, size_t& p, std::vector<Node>& to)
{
	if (p < s.size() && s[p] == '-') { ++p; return true; }
	for (;;)
	{
		Node n;
		if (!parse_item(s, p, n)) return false;
		to.push_back(n);
		if (p < s.size() && s[p] == ',') { ++p; continue; }
		return true;
	}
}

static void build(const F8MetaCntx& c, MessageBase *mb, const std::vector<Node>& items)
{
	for (size_t i(0); i < items.size(); ++i)
	{
		const Node& n(items[i]);
		if (!n.isgroup)
		{
			BaseField *f(c.create_field(static_cast<unsigned short>(n.tag), n.val.c_str()));
			if (!f) throw InvalidField(n.tag);
			try { mb->add_field(f); } catch (...) { delete f; throw; }
			continue;
		}
		std::ostringstream cnt; cnt << n.els.size();
		BaseField *f(c.create_field(static_cast<unsigned short>(n.tag), cnt.str().c_str()));
		if (!f) throw InvalidField(n.tag);
		try { mb->add_field(f); } catch (...) { delete f; throw; }
		GroupBase *gb(mb->find_group(n.tag));
		if (!gb) throw InvalidRepeatingGroup(n.tag);
		for (size_t k(0); k < n.els.size(); ++k)
		{
			std::unique_ptr<MessageBase> el(gb->create_group(true));
			build(c, el.get(), n.els[k]);
			*gb += el.release();
		}
	}
}

static void show(const MessageBase *mb, std::ostream& os)
{
	bool first(true);
	const Positions& ps(mb->get_positions());
	if (ps.empty()) { os << '-'; return; }
	for (Positions::const_iterator it(ps.begin()); it != ps.end(); ++it)
	{
		if (!first) os << ',';
		first = false;
		const unsigned short tag(it->second->get_tag());
		Presence::const_iterator pit(mb->get_fp().get_presence().find(tag));
		const bool isgrp(pit != mb->get_fp().get_presence().end() && pit->_field_traits.has(FieldTrait::group));
		if (!isgrp)
		{
			std::ostringstream v; it->second->print(v);
			os << tag << '=' << hex(v.str());
			continue;
		}
		GroupBase *gb(mb->find_group(tag));
		std::ostringstream v; it->second->print(v);
		os << tag << '[';
		const size_t n(gb ? gb->size() : 0);
		for (size_t k(0); k < n; ++k)
		{
			if (k) os << '/';
			show(gb->get_element(k), os);
		}
		os << ']';
		if (v.str() != std::to_string(n)) os << "count=" << hex(v.str());
	}
}

static std::string exname(const std::exception& e)
{
	std::string n(typeid(e).name());
	// strip the mangled namespace decoration: N4FIX8<len><name>E
	size_t p(n.find("FIX8"));
	if (p != std::string::npos)
	{
		p += 4;
		size_t q(p);
		while (q < n.size() && isdigit((unsigned char)n[q])) ++q;
		if (q > p) return n.substr(q, std::stoul(n.substr(p, q - p)));
	}
	return n;
}

int main(int argc, char **argv)
{
	if (argc > 1 && std::string(argv[1]) == "dump") { dump(); return 0; }
	const F8MetaCntx& c(TVS_ctx());
	std::string line;
	while (std::getline(std::cin, line))
	{
		std::vector<std::string> w(split(line));
		std::ostringstream os;
		if (w.size() == 3 && (w[0] == "rt" || w[0] == "miss"))
		{
			std::string key; unhex(w[1], key);
			std::vector<Node> tree; size_t p(0);
			if (!parse_tree(w[2], p, tree) || p != w[2].size()) { out("bad-tree"); continue; }
			const BaseMsgEntry *bme(c._bme.find_ptr(key.c_str()));
			if (!bme) { out("no-msg"); continue; }
			try
			{
				std::unique_ptr<Message> m(bme->_create._do(true));
				build(c, m.get(), tree);
				if (w[0] == "miss")
				{
					os << "missing=" << m->get_fp().find_missing();
					out(os.str());
					continue;
				}
				MessageBase *h(m->Header());
				static const unsigned short htags[] = { 49, 56, 34, 52 };
				static const char *hvals[] = { "SND", "TGT", "7", "20240102-03:04:05" };
				for (int i(0); i < 4; ++i)
					if (h->get_fp().has(htags[i]))
					{
						BaseField *f(c.create_field(htags[i], hvals[i]));
						if (f) h->add_field(f);
					}
				f8String wire;
				m->encode(wire);
				std::unique_ptr<Message> d(Message::factory(c, wire));
				std::ostringstream tr; show(d.get(), tr);
				f8String wire2;
				d->encode(wire2);
				os << "wire=" << hex(wire) << " dec=" << tr.str() << " re=" << (wire2 == wire ? 1 : 0);
			}
			catch (f8Exception& e) { os.str(""); os << "throw:" << exname(e) << ':' << hex(cstr(e.what())); }
			catch (std::exception& e) { os.str(""); os << "throw:std:" << hex(cstr(e.what())); }
		}
		else os << "bad-op";
		out(os.str());
	}
	return 0;
}
