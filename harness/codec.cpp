// C01-C06, C11 harness: the generated FIX42UTEST codec driven by a line protocol.
//   codec dump                         schema dump for Gen/SchemaUTEST.lean
//   enc <spec>                         build the message through the API in the given insertion order, encode        -> wire <hex> | throw:<Class>
//   rt <spec>                          build, encode, decode (strict), dump, re-encode                                 -> wire=<hex> dec=<dump> re=<hex>
//   dec <s|p> <hex>                    Message::factory(strict|permissive) on raw bytes, dump, re-encode               -> ok <dump> re=<hex> | throw:<Class>
//   clone <spec>                       build; clone / copy_legal into a fresh message / move_legal; encode each          -> orig=<hex> clone=<hex> copy=<hex> moved=<hex>
//   enc2 <spec>                        build, encode the same object twice                                              -> first=<hex> second=<hex>
// spec:  M=<hex msgtype> { item }   item: [h|t]<tag>=<hex value> | <tag>=<hex count>[ { "{" item* "}" } "]"
// dump:  H[ items ] B[ items ] T[ items ]   item: <tag>=<hex printed value>  groups: <tag>=<hex>[{..}{..}]   unknown bytes: U<hex>
#include "hcommon.hpp"
#include "openup.hpp"
#include <fix8/f8includes.hpp>
#ifndef SCHEMA_NS			// default: the unit-test schema FIX42UTEST; -DSCHEMA_NS=FIX44 -DSCHEMA_TYPES='"fix44_types.hpp"' ... selects another one
#define SCHEMA_NS UTEST
#define SCHEMA_TYPES "utest_types.hpp"
#define SCHEMA_ROUTER "utest_router.hpp"
#define SCHEMA_CLASSES "utest_classes.hpp"
#endif
#include SCHEMA_TYPES
#include SCHEMA_ROUTER
#include SCHEMA_CLASSES
#include <cxxabi.h>
#include <typeinfo>
using namespace FIX8;

static std::string cstr(const char *p) { return p ? std::string(p) : std::string(); }
static const F8MetaCntx& C() { return SCHEMA_NS::ctx(); }

static std::string exname(const std::exception& e)
{
	int st(0);
	char *d(abi::__cxa_demangle(typeid(e).name(), 0, 0, &st));
	std::string n(d ? d : typeid(e).name());
	std::free(d);
	const size_t p(n.rfind("::"));
	std::string r("throw:" + (p == std::string::npos ? n : n.substr(p + 2)));
	if (std::getenv("VERIF_WHAT")) { r += "("; for (const char *c(e.what()); *c; ++c) r += *c == ' ' ? '_' : *c; r += ")"; }	// debugging aid only
	return r;
}

// ---------------------------------------------------------------- schema dump
static void dump_traits(const std::string& label, const MessageBase *m, int depth, GroupBase *parent=nullptr)
{
	std::ostringstream os;
	os << label;
	std::vector<unsigned short> groups;
	for (Presence::const_iterator it(m->_fp.get_presence().begin()); it != m->_fp.get_presence().end(); ++it)
	{
		os << ' ' << it->_fnum << ':' << int(it->_ftype) << ':' << it->_pos << ':' << it->_field_traits.get();
		if (it->_field_traits.has(FieldTrait::group)) groups.push_back(it->_fnum);
	}
	out(os.str());
	for (size_t i(0); i < groups.size(); ++i)
	{
		GroupBase *gb(m->find_group(groups[i]));
		if (!gb) gb = const_cast<MessageBase *>(m)->find_add_group(groups[i], parent);
		if (!gb) { std::ostringstream e; e << "nogroup " << groups[i]; out(e.str()); continue; }
		MessageBase *el(gb->create_group(true));
		std::ostringstream l; l << "group " << depth + 1 << ' ' << groups[i];
		dump_traits(l.str(), el, depth + 1, gb);
		delete el;
	}
	std::ostringstream e; e << "end " << depth; out(e.str());
}

static void dump()
{
	const F8MetaCntx& c(C());
	std::ostringstream flds;
	flds << "fields";
	for (unsigned i(0); i < c._be.size(); ++i)
	{
		const FieldTable::Pair *pp(c._be.at(i));
		flds << ' ' << pp->_key;
	}
	out(flds.str());
	out("beginstr " + hex(c._beginStr));
	{
		std::ostringstream os; os << "preamble_sz " << c._preamble_sz; out(os.str());
	}
	bool done_ht(false);
	for (unsigned i(0); i < c._bme.size(); ++i)
	{
		const MsgTable::Pair *pp(c._bme.at(i));
		const std::string key(cstr(pp->_key));
		if (key == "header" || key == "trailer") continue;
		Message *m(pp->_value._create._do(true));
		if (!m) continue;
		if (!done_ht)
		{
			dump_traits("header", m->Header(), 0);
			dump_traits("trailer", m->Trailer(), 0);
			done_ht = true;
		}
		dump_traits("msg " + hex(key), m, 0);
		delete m;
	}
}

// ---------------------------------------------------------------- building from a spec
struct Parser
{
	const std::vector<std::string>& w; size_t i;
	Parser(const std::vector<std::string>& ww, size_t start) : w(ww), i(start) {}
	bool more() const { return i < w.size(); }
};

static BaseField *mkfield(unsigned tag, const std::string& val)
{
	const BaseEntry *be(C().find_be(tag));
	if (!be) throw InvalidField(tag);
	return be->_create._do(val.c_str(), be->_rlm, -1);
}

// items until a closing token ("}" or end); groups recursive
static void build_items(Parser& p, MessageBase *body, MessageBase *hdr, MessageBase *trl, GroupBase *parent=nullptr)
{
	while (p.more())
	{
		const std::string& t(p.w[p.i]);
		if (t == "}" || t == "]") return;
		++p.i;
		size_t off(0);
		MessageBase *target(body);
		if (t[0] == 'h') { target = hdr; off = 1; }
		else if (t[0] == 't') { target = trl; off = 1; }
		const size_t eq(t.find('='));
		const unsigned tag(std::stoul(t.substr(off, eq - off)));
		const bool isgrp(t[t.size() - 1] == '[');
		std::string val; unhex(t.substr(eq + 1, t.size() - eq - 1 - (isgrp ? 1 : 0)), val);
		if (!target) throw InvalidField(tag);
		target->add_field(mkfield(tag, val));
		if (isgrp)
		{
			// as the decoder does: a nested group that the deep constructor did not create is created through its parent group
			GroupBase *gb(target->find_group(tag));
			if (!gb && target->_fp.is_group(tag)) gb = target->find_add_group(tag, target == body ? parent : nullptr);
			if (!gb) throw InvalidRepeatingGroup(tag);
			while (p.more() && p.w[p.i] == "{")
			{
				++p.i;
				MessageBase *el(gb->create_group(true));
				*gb << el;
				build_items(p, el, nullptr, nullptr, gb);
				if (p.more() && p.w[p.i] == "}") ++p.i;
			}
			if (p.more() && p.w[p.i] == "]") ++p.i;
		}
	}
}

static Message *build(const std::vector<std::string>& w, size_t start)
{
	std::string mt; unhex(w[start].substr(2), mt);
	const BaseMsgEntry *bme(C()._bme.find_ptr(mt.c_str()));
	if (!bme) throw InvalidMessage(mt);
	Message *m(bme->_create._do(true));
	try
	{
		Parser p(w, start + 1);
		build_items(p, m, m->Header(), m->Trailer());
	}
	catch (...) { delete m; throw; }
	return m;
}

// ---------------------------------------------------------------- dumping a message
static void dump_items(std::ostringstream& os, const MessageBase *m)
{
	bool first(true);
	for (Positions::const_iterator it(m->_pos.begin()); it != m->_pos.end(); ++it)
	{
		char buf[FIX8_MAX_FLD_LENGTH * 2 + 64];
		const size_t n(it->second->print(buf));
		os << (first ? "" : " ") << it->second->get_tag() << '=' << hex(std::string(buf, n));
		first = false;
		if (m->_fp.is_group(it->second->get_tag()))
		{
			const GroupBase *gb(m->find_group(it->second->get_tag()));
			if (gb && gb->size())
			{
				os << '[';
				for (size_t k(0); k < gb->size(); ++k) { os << '{'; dump_items(os, gb->get_element(k)); os << '}'; }
				os << ']';
			}
		}
	}
	if (m->get_unknown().size()) os << (first ? "" : " ") << 'U' << hex(m->get_unknown());
}

static std::string dump_msg(const Message *m)
{
	std::ostringstream os;
	os << "H["; dump_items(os, m->Header()); os << "] B["; dump_items(os, m); os << "] T["; dump_items(os, m->Trailer()); os << ']';
	return os.str();
}

static std::string enc(Message *m)
{
	f8String s;
	m->encode(s);
	return hex(s);
}

static std::string body_of(const std::string& line)		// everything after the first word
{
	const size_t p(line.find(' '));
	return p == std::string::npos ? std::string() : line.substr(p + 1);
}

int main(int argc, char **argv)
{
	if (argc > 1 && std::string(argv[1]) == "dump") { dump(); return 0; }
	std::string line;
	while (std::getline(std::cin, line))
	{
		std::vector<std::string> w(split(line));
		std::ostringstream os;
		try
		{
			if (w.size() >= 2 && w[0] == "enc")
			{
				std::unique_ptr<Message> m(build(w, 1));
				os << "wire " << enc(m.get());
			}
			else if (w.size() >= 2 && w[0] == "enc2")
			{
				std::unique_ptr<Message> m(build(w, 1));
				os << "first=" << enc(m.get());
				os << " second=" << enc(m.get());
			}
			else if (w.size() >= 2 && w[0] == "rt")
			{
				std::unique_ptr<Message> m(build(w, 1));
				f8String wire; m->encode(wire);
				os << "wire=" << hex(wire);
				std::unique_ptr<Message> d(Message::factory(C(), wire, false, false));
				os << " dec=" << dump_msg(d.get());
				os << " re=" << enc(d.get());
			}
			else if (w.size() == 3 && w[0] == "decn")		// decode only (C03: the result is not re-encoded)
			{
				std::string raw; unhex(w[2], raw);
				std::unique_ptr<Message> d(Message::factory(C(), raw, false, w[1] == "p"));
				os << "ok " << dump_msg(d.get());
			}
			else if (w.size() == 3 && w[0] == "dec")
			{
				std::string raw; unhex(w[2], raw);
				std::unique_ptr<Message> d(Message::factory(C(), raw, false, w[1] == "p"));
				os << "ok " << dump_msg(d.get());
				os << " re=" << enc(d.get());
			}
			else if (w.size() >= 2 && w[0] == "clone")
			{
				std::unique_ptr<Message> m(build(w, 1));
				std::unique_ptr<Message> c(m->clone());
				std::string mt; unhex(w[1].substr(2), mt);
				const BaseMsgEntry *bme(C()._bme.find_ptr(mt.c_str()));
				std::unique_ptr<Message> t1(bme->_create._do(true)), t2(bme->_create._do(true));
				const unsigned nc(m->copy_legal(t1.get()) + m->Header()->copy_legal(t1->Header()) + m->Trailer()->copy_legal(t1->Trailer()));
				os << "clone=" << enc(c.get()) << " copy=" << enc(t1.get());
				std::unique_ptr<Message> m2(build(w, 1));
				os << " orig=" << enc(m.get());
				const unsigned nm(m2->move_legal(t2.get()) + m2->Header()->move_legal(t2->Header()) + m2->Trailer()->move_legal(t2->Trailer()));
				os << " moved=" << enc(t2.get());
				// move_legal into a SHALLOW target (created with _do(false), the way Message::factory creates the message it decodes into:
				// its group objects do not exist yet and have to be inserted, not replaced)
				std::unique_ptr<Message> m3(build(w, 1)), t3(bme->_create._do(false));
				m3->move_legal(t3.get()); m3->Header()->move_legal(t3->Header()); m3->Trailer()->move_legal(t3->Trailer());
				os << " smoved=" << enc(t3.get());
			}
			else if (w.size() >= 3 && w[0] == "xcopy")		// xcopy <target msgtype hex> M=<source> items: copy_legal of the body into a fresh message of ANOTHER type
			{
				std::unique_ptr<Message> m(build(w, 2));
				std::string tt; unhex(w[1], tt);
				const BaseMsgEntry *bme(C()._bme.find_ptr(tt.c_str()));
				if (!bme) os << "throw:InvalidMessage";
				else
				{
					std::unique_ptr<Message> t(bme->_create._do(true));
					m->copy_legal(t.get());
					os << "xcopy=" << enc(t.get());
				}
			}
			else if (w.size() == 3 && w[0] == "dclone")		// decode, re-encode, clone the decoded message, encode the clone
			{
				std::string raw; unhex(w[2], raw);
				std::unique_ptr<Message> d(Message::factory(C(), raw, false, w[1] == "p"));
				os << "dec=" << dump_msg(d.get()) << " re=" << enc(d.get());
				std::unique_ptr<Message> c(d->clone());
				os << " clone=" << enc(c.get());
			}
			else os << "bad-op";
		}
		catch (const std::exception& e) { os << (os.str().empty() ? "" : " ") << exname(e); }
		out(os.str());
	}
	std::fflush(stdout);
	_exit(0);
}
