// C09 harness: the date/time field classes, time_to_epoch, gmtime_r and the log stamp.
#include "hcommon.hpp"
#include <fix8/f8includes.hpp>
using namespace FIX8;

template<typename F> static std::string prn(const F& f) { char buf[128]; std::memset(buf, 0, sizeof(buf)); const size_t n(f.print(buf)); return std::string(buf, n); }

int main()
{
	std::string line;
	while (std::getline(std::cin, line))
	{
		std::vector<std::string> w(split(line));
		std::ostringstream os;
		if (w.size() == 3 && w[0] == "ts")
		{
			const long long t(std::stoll(w[1])); const long ms(std::stol(w[2]));
			Field<UTCTimestamp, 52> f(Tickval(static_cast<time_t>(t), ms * 1000000L));
			const std::string txt(prn(f));
			Field<UTCTimestamp, 52> g(txt);
			const Tickval::ticks tk(g.get().get_ticks());
			os << hex(txt) << ' ';
			os << tk / 1000000;
		}
		else if (w.size() == 3 && w[0] == "to")
		{
			const long long t(std::stoll(w[1])); const long ms(std::stol(w[2]));
			Field<UTCTimeOnly, 273> f;
			f.set(Tickval(static_cast<time_t>(t), ms * 1000000L));
			const std::string txt(prn(f));
			Field<UTCTimeOnly, 273> g(txt);
			const Tickval::ticks tk(g.get().get_ticks());
			os << hex(txt) << ' ';
			os << tk / 1000000;
		}
		else if (w.size() == 2 && w[0] == "do")
		{
			const time_t t(static_cast<time_t>(std::stoll(w[1])));
			tm tms; gmtime_r(&t, &tms);
			Field<UTCDateOnly, 75> f(tms);
			Field<LocalMktDate, 229> l(tms);
			const std::string txt(prn(f));
			if (prn(l) != txt) { out("localmktdate-differs"); continue; }
			Field<UTCDateOnly, 75> g(txt);
			Field<LocalMktDate, 229> lg(txt);
			if (lg.get().get_ticks() != g.get().get_ticks()) { out("localmktdate-differs"); continue; }
			os << hex(txt) << ' ' << g.get().get_ticks() / 1000000000LL;
		}
		else if (w.size() == 2 && w[0] == "my")
		{
			const time_t t(static_cast<time_t>(std::stoll(w[1])));
			tm tms; gmtime_r(&t, &tms);
			Field<MonthYear, 200> f(tms);
			const std::string txt(prn(f));
			Field<MonthYear, 200> g(txt);
			os << hex(txt) << ' ' << hex(prn(g));
		}
		else if (w.size() == 2 && w[0] == "civil")
		{
			const time_t t(static_cast<time_t>(std::stoll(w[1])) * 86400);
			tm tms; gmtime_r(&t, &tms);
			os << tms.tm_year + 1900 << ' ' << tms.tm_mon + 1 << ' ' << tms.tm_mday;
		}
		else if (w.size() == 4 && w[0] == "log")
		{
			const Tickval tv(static_cast<time_t>(std::stoll(w[1])), std::stol(w[2]));
			std::string res;
			GetTimeAsStringMS(res, &tv, static_cast<unsigned>(std::stoul(w[3])), true);
			const size_t p(res.rfind(':'));
			os << hex(p == std::string::npos ? res : res.substr(p + 1));
		}
		else os << "bad-op";
		out(os.str());
	}
	return 0;
}
