// C24 harness: the real Schedule::test(prev) on a virtual clock, the real Configuration::create_schedule on an
// XmlElement parsed from a generated <schedule> element, and the real decode_dow.
//   consts                                                   -> errorticks day minute second
//   dow <hex>                                                -> -1..6
//   at <start> <end|E> <utc_off_min> <sd> <ed> <clock> <prev> -> 0|1            (Schedule constructor)
//   cfg <HH:MM:SS|-> <HH:MM:SS|-> <dur|-> <utc|-> <h<hex>|-> <h<hex>|->  -> ok <start> <end|E> <dur> <utc> <sd> <ed> <toffset> | invalid | throw:<Class>
//   run <start> <end|E> <utc> <sd> <ed> <init> <t0> <gaps>   -> n=<checks> s0=<first state> flips=<indices where the state changes|->
//   runx <6 cfg fields> <init> <t0> <gaps>                   -> the same through create_schedule (or invalid | throw:<Class>)
// gaps:  f:<n>:<gap>  n checks at a fixed distance |  r:<n>:<seed>:<maxgap>  distances 1 + (lcg >> 11) % maxgap  |  l:<d1>,<d2>,..  explicit distances (l:- = one check)
#include <unistd.h>
#include "vclock.hpp"
#include "hcommon.hpp"
#include <fix8/f8includes.hpp>
using namespace FIX8;

typedef long long ll;

static std::string tk(Tickval::ticks t) { return t == Tickval::errorticks() ? std::string("E") : std::to_string(t); }
static Tickval::ticks untk(const std::string& s) { return s == "E" ? Tickval::errorticks() : static_cast<Tickval::ticks>(std::stoll(s)); }

static bool gaps(const std::string& spec, std::vector<ll>& d)
{
	std::vector<std::string> p; std::string cur;
	for (size_t i(0); i <= spec.size(); ++i)
		if (i == spec.size() || spec[i] == ':') { p.push_back(cur); cur.clear(); } else cur += spec[i];
	d.clear();
	if (p.size() == 3 && p[0] == "f")
	{
		const ll n(std::stoll(p[1])), g(std::stoll(p[2]));
		for (ll i(1); i < n; ++i) d.push_back(g);
		return n >= 1;
	}
	if (p.size() == 4 && p[0] == "r")
	{
		const ll n(std::stoll(p[1])); unsigned long long x(std::stoull(p[2])); const unsigned long long mg(std::stoull(p[3]));
		if (!mg) return false;
		for (ll i(1); i < n; ++i)
		{
			x = x * 6364136223846793005ULL + 1442695040888963407ULL;
			d.push_back(static_cast<ll>(1 + (x >> 11) % mg));
		}
		return n >= 1;
	}
	if (p.size() == 2 && p[0] == "l")
	{
		if (p[1] == "-") return true;
		std::string c;
		for (size_t i(0); i <= p[1].size(); ++i)
			if (i == p[1].size() || p[1][i] == ',') { d.push_back(std::stoll(c)); c.clear(); } else c += p[1][i];
		return true;
	}
	return false;
}

static std::string trace(const Schedule& sch, bool init, ll t0, const std::vector<ll>& d)
{
	std::ostringstream os, fl;
	bool st(init), first(true), any(false), s0(false);
	ll t(t0);
	for (size_t i(0); i <= d.size(); ++i)
	{
		if (i) t += d[i - 1];
		vclock::set(t);
		const bool nx(sch.test(st));
		if (first) { s0 = nx; first = false; }
		else if (nx != st) { if (any) fl << ','; fl << i; any = true; }
		st = nx;
	}
	vclock::off();
	os << "n=" << d.size() + 1 << " s0=" << s0 << " flips=" << (any ? fl.str() : std::string("-"));
	return os.str();
}

static bool xml_safe(const std::string& s)
{
	for (size_t i(0); i < s.size(); ++i)
		if (!(isalnum(static_cast<unsigned char>(s[i])) || s[i] == ' ' || s[i] == '_' || s[i] == '.' || s[i] == '+'))
			return false;
	return true;
}

// returns 0 ok, 1 invalid, 2 bad-op; throws what create_schedule throws
static int make_cfg(const std::vector<std::string>& w, size_t o, Schedule& to)
{
	std::ostringstream x;
	x << "<?xml version='1.0' encoding='ISO-8859-1'?>\n<fix8>\n<schedule name='s0'";
	static const char *names[] { "start_time", "end_time", "duration", "utc_offset_mins" };
	for (int i(0); i < 4; ++i)
		if (w[o + i] != "-")
		{
			if (w[o + i].find_first_not_of("0123456789:-") != std::string::npos) return 2;
			x << ' ' << names[i] << "='" << w[o + i] << '\'';
		}
	std::string sd, ed;
	if (w[o + 4] != "-") { if (!unhex(w[o + 4].substr(1), sd) || !xml_safe(sd)) return 2; x << " start_day='" << sd << '\''; }
	if (w[o + 5] != "-") { if (!unhex(w[o + 5].substr(1), ed) || !xml_safe(ed)) return 2; x << " end_day='" << ed << '\''; }
	x << " />\n</fix8>\n";
	std::istringstream is(x.str());
	Configuration conf(is);
	if (!conf.get_root()) return 2;
	const XmlElement *el(conf.get_root()->find("fix8/schedule"));
	if (!el) return 2;
	to = conf.create_schedule(el);
	return to.is_valid() ? 0 : 1;
}

int main()
{
	// the global logger is not the subject here: library threads that log through it allocate from FastFlow's per-thread allocator, whose
	// deregistration at thread exit is occasionally reported by ASan (heap-use-after-free in ff/allocator.hpp) - keep it silent
	FIX8::GlobalLogger::set_levels(FIX8::Logger::Levels(FIX8::Logger::None));
	std::string line;
	while (std::getline(std::cin, line))
	{
		std::vector<std::string> w(split(line));
		std::ostringstream os;
		try
		{
			if (w.size() == 1 && w[0] == "consts")
				os << Tickval::errorticks() << ' ' << Tickval::day << ' ' << Tickval::minute << ' ' << Tickval::second;
			else if (w.size() == 2 && w[0] == "dow")
			{
				std::string s;
				if (!unhex(w[1], s)) { out("bad-op"); continue; }
				os << decode_dow(s);
			}
			else if (w.size() == 8 && w[0] == "at")
			{
				const Schedule sch(Tickval(untk(w[1])), Tickval(untk(w[2])), Tickval(), std::stoi(w[3]), std::stoi(w[4]), std::stoi(w[5]));
				vclock::set(std::stoll(w[6]));
				const bool r(sch.test(w[7] == "1"));
				vclock::off();
				os << r;
			}
			else if (w.size() == 7 && w[0] == "cfg")
			{
				Schedule sch;
				const int rc(make_cfg(w, 1, sch));
				if (rc == 2) { out("bad-op"); continue; }
				if (rc == 1) { out("invalid"); continue; }
				os << "ok " << tk(sch._start.get_ticks()) << ' ' << tk(sch._end.get_ticks()) << ' ' << sch._duration.get_ticks() << ' '
					<< sch._utc_offset << ' ' << sch._start_day << ' ' << sch._end_day << ' ' << sch._toffset;
			}
			else if (w.size() == 9 && w[0] == "run")
			{
				std::vector<ll> d;
				if (!gaps(w[8], d)) { out("bad-op"); continue; }
				const Schedule sch(Tickval(untk(w[1])), Tickval(untk(w[2])), Tickval(), std::stoi(w[3]), std::stoi(w[4]), std::stoi(w[5]));
				os << trace(sch, w[6] == "1", std::stoll(w[7]), d);
			}
			else if (w.size() == 10 && w[0] == "runx")
			{
				std::vector<ll> d;
				if (!gaps(w[9], d)) { out("bad-op"); continue; }
				Schedule sch;
				const int rc(make_cfg(w, 1, sch));
				if (rc == 2) { out("bad-op"); continue; }
				if (rc == 1) { out("invalid"); continue; }
				os << trace(sch, w[7] == "1", std::stoll(w[8]), d);
			}
			else { out("bad-op"); continue; }
		}
		catch (ConfigurationError&) { vclock::off(); out("throw:ConfigurationError"); continue; }
		catch (f8Exception&) { vclock::off(); out("throw:f8Exception"); continue; }
		catch (std::exception&) { vclock::off(); out("throw:std"); continue; }
		out(os.str());
	}
	std::fflush(stdout);
	_exit(0);
}
