// C25 harness: concurrent senders on a REAL FIX8::Session + ClientConnection over loopback TCP (FIX42UTEST schema).
//
// deterministic part (cooperative scheduler: logical sender threads are real threads of which exactly one runs at a time;
// they park at the yield points  acq = in front of pthread_spin_lock(_con_spl),  put = in front of Persister::put(seq,msg),
// rel = in front of pthread_spin_unlock(_con_spl), out = right after it (lock free, call not yet returned) -- pthread_spin_lock/unlock are interposed in THIS executable, the persister is wrapped):
//   det <thread|coro|pipe> <mem|file>      fresh store, session, connection with that process model, start() (Logon = number 1)
//   call <t> w <pid>                        logical thread t (idle) calls Session::send(NewOrderSingle ClOrdID=pid), runs to its first yield point
//   call <t> b <pid>...                     the same with Session::send_batch
//   run <t>                                 thread t continues to its next yield point (a failed lock attempt parks again at acq: `spin`)
//   end                                     tear down; everything the PEER socket received + the persister contents
//   answer: <ok|spin|bad> at=<idle|acq|put|rel|out|per> lock=<t|-> ns=<_next_send_seq> wire=<frames written> buf=<frames in _batchmsgs_buffer> st=<messages stored> new=<seq:pid,...>
//   (pipe: the writer thread runs freely; the harness waits after every command until it has processed everything pushed so far)
// free-running part (real concurrency, judged by the oracle only):
//   free <thread|coro|pipe> <mem|file> <flags> | <prog of thread 1> | <prog of thread 2> ...    prog = w:<pid> b:<pid>+<pid>+... separated by blanks
//      flags: - or W (thread 2 starts its first call when thread 1 is inside the lock: witness hunt for a single write inside a batch)
//   answer: first=<n> ns=<n> wire=<seq>:<type>:<pid>:<hash>,... store=<seq>:<hash|->,... ret=<calls that returned failure>
// Frames are cut from the byte stream the peer end of the TCP connection received (BodyLength framing), never from inside the library.
#include "hcommon.hpp"
#include "openup.hpp"
#include "vclock.hpp"
#include <fix8/f8includes.hpp>
#include "utest_types.hpp"
#include "utest_router.hpp"
#include "utest_classes.hpp"
#include <dirent.h>
#include <poll.h>
#include <sys/stat.h>
#include <sys/socket.h>
#include <netinet/in.h>
#include <netinet/tcp.h>
#include <arpa/inet.h>
#include <thread>
#include <mutex>
#include <condition_variable>
using namespace FIX8;

//------------------------------------------------------------------------------------------------- cooperative scheduler
struct LT
{
	int id;
	std::thread th;
	std::mutex m;
	std::condition_variable cv;
	bool go, parked, idle, has_call, quit, spun, counted;
	std::string where;
	std::vector<std::string> pids; bool batch;
	size_t ret;
	LT(int i) : id(i), go(false), parked(false), idle(true), has_call(false), quit(false), spun(false), counted(true), where("idle"), batch(false), ret(0) {}
};
static thread_local LT *tl_lt(nullptr);
static std::atomic<bool> g_det(false);
// _con_spl is the only spin lock inside the FIXWriter object (it is a default-private member: recognised by its address range)
static char *g_wr_lo(nullptr), *g_wr_hi(nullptr);
static inline bool is_con_spl(pthread_spinlock_t *l) { return (char *)l >= g_wr_lo && (char *)l < g_wr_hi; }
// Session::_per_spl (taken inside send_process around the persister calls): in the deterministic part a logical thread that finds it
// taken parks (`per`) instead of spinning for ever against a parked holder -- cannot happen while _con_spl does its job
static char *g_per_lo(nullptr), *g_per_hi(nullptr);
static inline bool is_per_spl(pthread_spinlock_t *l) { return (char *)l >= g_per_lo && (char *)l < g_per_hi; }
static std::atomic<int> g_holder(-1);

static void park(LT *lt, const char *where)
{
	std::unique_lock<std::mutex> lk(lt->m);
	lt->where = where; lt->parked = true; lt->cv.notify_all();
	lt->cv.wait(lk, [&] { return lt->go; });
	lt->go = false; lt->parked = false;
}

typedef int (*spinfn)(pthread_spinlock_t *);
extern "C" int pthread_spin_lock(pthread_spinlock_t *l)
{
	static spinfn real((spinfn)dlsym(RTLD_NEXT, "pthread_spin_lock"));
	static spinfn realtry((spinfn)dlsym(RTLD_NEXT, "pthread_spin_trylock"));
	if (tl_lt && is_con_spl(l))
	{
		if (g_det)
		{
			for (;;)
			{
				park(tl_lt, "acq");
				if (!g_det) break;		// tear-down: finish freely
				if (realtry(l) == 0) { g_holder = tl_lt->id; tl_lt->spun = false; return 0; }
				tl_lt->spun = true;
			}
		}
		const int r(real(l));
		g_holder.store(tl_lt->id, std::memory_order_relaxed);
		return r;
	}
	if (tl_lt && g_det && is_per_spl(l))
	{
		while (realtry(l) != 0)
		{
			park(tl_lt, "per");
			if (!g_det) return real(l);
		}
		return 0;
	}
	return real(l);
}
// the unchanged library never uses trylock on the writer lock; a change that does (e.g. "take it if free, else go on") must not slip past the
// yield points: the caller parks at `acq` like a locker, then the real trylock decides - if it fails the thread goes on WITHOUT the lock and is
// next seen at `put` while another thread holds it, which the model (a sender spins at acq until the lock is free) contradicts
extern "C" int pthread_spin_trylock(pthread_spinlock_t *l)
{
	static spinfn realtry((spinfn)dlsym(RTLD_NEXT, "pthread_spin_trylock"));
	if (tl_lt && is_con_spl(l))
	{
		if (g_det) park(tl_lt, "acq");
		const int r(realtry(l));
		if (r == 0) g_holder.store(tl_lt->id, std::memory_order_relaxed);
		return r;
	}
	return realtry(l);
}
extern "C" int pthread_spin_unlock(pthread_spinlock_t *l)
{
	static spinfn real((spinfn)dlsym(RTLD_NEXT, "pthread_spin_unlock"));
	if (tl_lt && is_con_spl(l))
	{
		if (g_det) park(tl_lt, "rel");
		g_holder.store(-1, std::memory_order_relaxed);
		const int r(real(l));
		if (g_det) park(tl_lt, "out");	// the lock is free again, the call has not returned yet
		return r;
	}
	return real(l);
}

// the persister of the session: forwards everything; put(seq, msg) is a yield point of the logical threads
class YPersister : public Persister
{
	Persister *_in;
public:
	std::atomic<unsigned> stored;
	YPersister(Persister *in) : _in(in), stored(0) {}
	~YPersister() { delete _in; }
	Persister *inner() { return _in; }
	bool put(const unsigned seqnum, const f8String& what)
	{
		if (g_det && tl_lt) park(tl_lt, "put");
		const bool r(_in->put(seqnum, what));
		if (r) ++stored;
		return r;
	}
	bool put(const unsigned s, const unsigned t) { return _in->put(s, t); }
	bool get(const unsigned seqnum, f8String& to) const { return _in->get(seqnum, to); }
	unsigned get(const unsigned from, const unsigned to, Session& session,
		bool (Session::*callback)(const Session::SequencePair& with, Session::RetransmissionContext& rctx)) const { return _in->get(from, to, session, callback); }
	unsigned get_last_seqnum(unsigned& to) const { return _in->get_last_seqnum(to); }
	bool get(unsigned& s, unsigned& t) const { return _in->get(s, t); }
	unsigned find_nearest_highest_seqnum(const unsigned requested, const unsigned last) const { return _in->find_nearest_highest_seqnum(requested, last); }
	void stop() { _in->stop(); }
};

//------------------------------------------------------------------------------------------------- frames
static std::string fnv(const std::string& s)
{
	unsigned long long h(1469598103934665603ULL);
	for (size_t i(0); i < s.size(); ++i) { h ^= (unsigned char)s[i]; h *= 1099511628211ULL; }
	char b[20]; std::snprintf(b, sizeof(b), "%016llx", h);
	return b;
}
static void cut_frames(std::string& data, std::vector<std::string>& to)	// consumes complete frames from the front of data
{
	size_t pos(0);
	while (pos < data.size())
	{
		const size_t p9(data.find("\0019=", pos));
		if (p9 == std::string::npos) break;
		const size_t pe(data.find('\001', p9 + 3));
		if (pe == std::string::npos) break;
		const unsigned long len(std::strtoul(data.substr(p9 + 3, pe - p9 - 3).c_str(), nullptr, 10));
		const size_t end(pe + 1 + len + 7);
		if (end > data.size()) break;
		to.push_back(data.substr(pos, end - pos));
		pos = end;
	}
	data.erase(0, pos);
}
static std::string field(const std::string& frame, const char *tag)	// first occurrence of SOH<tag>=
{
	const std::string k(std::string("\001") + tag + "=");
	const size_t p(frame.find(k));
	if (p == std::string::npos) return "-";
	const size_t e(frame.find('\001', p + 1));
	const std::string v(frame.substr(p + k.size(), e == std::string::npos ? std::string::npos : e - p - k.size()));
	return v.empty() ? "-" : v;
}
static std::string seqpid(const std::string& f) { return field(f, "34") + ':' + field(f, "11"); }

// det mode only: frames in the order of the send() calls on the connection's descriptor (one runnable sender at a time)
static std::atomic<int> g_fd(-1);
static std::mutex g_cap_m;
static std::vector<std::string> g_cap;
extern "C" ssize_t send(int fd, const void *buf, size_t n, int flags)
{
	typedef ssize_t (*sfn)(int, const void *, size_t, int);
	static sfn real((sfn)dlsym(RTLD_NEXT, "send"));
	if (g_det && fd >= 0 && (fd == g_fd || g_fd < 0))
	{
		std::string d(static_cast<const char *>(buf), n);
		std::vector<std::string> fr;
		cut_frames(d, fr);
		std::lock_guard<std::mutex> g(g_cap_m);
		for (size_t i(0); i < fr.size(); ++i) if (field(fr[i], "35") != "A") g_cap.push_back(fr[i]);	// the Logon is not counted
	}
	return real(fd, buf, n, flags);
}

//------------------------------------------------------------------------------------------------- the session
// FIXWriter::stop() pushes a null pointer into the FastFlow queue, which `assert(data != NULL)` in uSWSR_Ptr_Buffer::push refuses
// (the library is built without NDEBUG, as /repo's own build is): the pipelined writer thread is ended here by a last message
// whose modify_outbound throws (FIXWriter::execute leaves its loop on any std::exception and clears _started).
static std::atomic<bool> g_kill(false);
class HSess : public Session
{
public:
	void modify_outbound(Message *msg) { if (g_kill) throw std::runtime_error("harness: end of writer thread"); }
	// the timer thread is told to stop and is joined ONCE, by ~Timer (a second join on the stale pthread_t can hit a recycled thread id)
	HSess(const SessionID& sid, Persister *p) : Session(UTEST::ctx(), sid, p, nullptr, nullptr) { _timer.clear(); _timer.stop(); }
	bool handle_application(const unsigned seqnum, const Message *&msg) { return enforce(seqnum, msg) || true; }
};

static std::string g_dir;
static void rmtree(const std::string& d)
{
	DIR *dp(opendir(d.c_str()));
	if (!dp) return;
	while (dirent *e = readdir(dp))
	{
		const std::string n(e->d_name);
		if (n == "." || n == "..") continue;
		::unlink((d + "/" + n).c_str());
	}
	closedir(dp);
}

static Message *mk_order(const std::string& pid)
{
	UTEST::NewOrderSingle *nos(new UTEST::NewOrderSingle);
	*nos << new UTEST::TransactTime(Tickval(true))
		  << new UTEST::OrderQty(50)
		  << new UTEST::ClOrdID(pid)
		  << new UTEST::HandlInst(UTEST::HandlInst_AUTOMATED_EXECUTION_ORDER_PRIVATE_NO_BROKER_INTERVENTION)
		  << new UTEST::OrdType(UTEST::OrdType_MARKET)
		  << new UTEST::Side(UTEST::Side_BUY)
		  << new UTEST::Symbol("OC");
	return nos;
}

static Message *mk_order(const std::string& pid);
struct World
{
	int lfd, afd; unsigned short port;
	YPersister *per; HSess *sess; ClientConnection *conn; Poco::Net::StreamSocket *sock;
	ProcessModel pm; unsigned first, pushed, submitted;
	std::thread peer; std::mutex pm_; std::string peer_bytes; std::atomic<bool> peer_done;
	std::vector<LT *> lts;
	size_t cap_seen;
	World() : lfd(-1), afd(-1), port(0), per(nullptr), sess(nullptr), conn(nullptr), sock(nullptr), pm(pm_thread), first(0), pushed(0), submitted(0), peer_done(true), cap_seen(0) {}

	void listen_on()
	{
		lfd = ::socket(AF_INET, SOCK_STREAM, 0);
		sockaddr_in a; std::memset(&a, 0, sizeof(a)); a.sin_family = AF_INET; a.sin_addr.s_addr = htonl(INADDR_LOOPBACK); a.sin_port = 0;
		::bind(lfd, (sockaddr *)&a, sizeof(a)); ::listen(lfd, 4);
		socklen_t l(sizeof(a)); ::getsockname(lfd, (sockaddr *)&a, &l); port = ntohs(a.sin_port);
	}
	bool start(const std::string& pmn, const std::string& pk)
	{
		pm = pmn == "pipe" ? pm_pipeline : pmn == "coro" ? pm_coro : pm_thread;
		Persister *in(nullptr);
		if (pk == "file") { rmtree(g_dir); FilePersister *fp(new FilePersister(0)); fp->initialise(g_dir, "conc.db", true); in = fp; }
		else in = new MemoryPersister;
		per = new YPersister(in);
		sess = new HSess(SessionID(f8String("FIX.4.2"), f8String("CLI"), f8String("SRV")), per);
		LoginParameters lp(1, 1, default_appl_ver_id(), 1, false, false, false, false, false, false, true);
		sess->set_login_parameters(lp);
		sock = new Poco::Net::StreamSocket;
		Poco::Net::SocketAddress addr("127.0.0.1", port);
		conn = new ClientConnection(sock, addr, *sess, 30, pm, true);
		g_wr_lo = reinterpret_cast<char *>(&conn->_writer); g_wr_hi = g_wr_lo + sizeof(FIXWriter);
		g_per_lo = reinterpret_cast<char *>(&sess->_per_spl); g_per_hi = g_per_lo + sizeof(f8_spin_lock);
		g_holder = -1;
		{ std::lock_guard<std::mutex> g(g_cap_m); g_cap.clear(); }
		cap_seen = 0; pushed = 0; submitted = 0;
		if (sess->start(conn, false, 0, 0) != 0) return false;
		g_fd = sock->impl()->sockfd();
		afd = ::accept(lfd, nullptr, nullptr);
		peer_bytes.clear(); peer_done = false;
		peer = std::thread([this] {
			char buf[65536];
			for (;;)
			{
				const ssize_t n(::recv(afd, buf, sizeof(buf), 0));
				if (n <= 0) break;
				std::lock_guard<std::mutex> g(pm_);
				peer_bytes.append(buf, n);
			}
			peer_done = true;
		});
		// the Logon (number 1) is sent by start() on this thread; in pipe mode by the writer thread: wait for it
		wait_ns(2);
		first = unsigned(sess->_next_send_seq);
		return true;
	}
	bool wait_ns(unsigned target, int ms = 8000)
	{
		for (int i(0); i < ms * 10; ++i)
		{
			if (unsigned(sess->_next_send_seq) >= target) return true;
			::usleep(100);
		}
		return false;
	}
	size_t peer_frames(std::vector<std::string>& to)
	{
		std::lock_guard<std::mutex> g(pm_);
		std::string copy(peer_bytes);
		cut_frames(copy, to);
		return copy.size();	// bytes that are not a complete frame
	}
	// wait until the peer has received `n` complete frames (or the time is up)
	void wait_peer(size_t n, int ms = 8000)
	{
		for (int i(0); i < ms; ++i)
		{
			std::vector<std::string> f;
			peer_frames(f);
			if (f.size() >= n) return;
			::usleep(1000);
		}
	}
	void drop()
	{
		g_det = false;
		for (size_t i(0); i < lts.size(); ++i)	// let every logical thread finish whatever it is doing, then stop it
		{
			LT *lt(lts[i]);
			{ std::unique_lock<std::mutex> lk(lt->m); lt->quit = true; lt->go = true; lt->cv.notify_all(); }
			lt->th.join();
			delete lt;
		}
		lts.clear();
		g_fd = -1;
		if (sess)
		{
			if (pm == pm_pipeline)
			{
				wait_ns(first + pushed, 3000);
				g_kill = true;
				sess->send(mk_order("KILL"), true, 0, false);
				for (int i(0); i < 50000 && conn->_writer.started(); ++i) ::usleep(100);
				g_kill = false;
			}
			sess->stop();
		}
		delete conn; conn = nullptr;
		delete sock; sock = nullptr;
		if (peer.joinable()) peer.join();	// recv returns 0 once the session's socket is closed
		delete sess; sess = nullptr;
		if (afd >= 0) { ::close(afd); afd = -1; }
		delete per; per = nullptr;
		g_wr_lo = g_wr_hi = nullptr; g_per_lo = g_per_hi = nullptr;
	}
	std::string final_dump(size_t expect_frames)
	{
		if (pm == pm_pipeline) wait_ns(first + pushed, 30000);	// long only when something is slow (TSan) or lost
		wait_peer(expect_frames, pm == pm_pipeline ? 20000 : 8000);
		const unsigned ns(sess ? unsigned(sess->_next_send_seq) : 0);
		std::vector<std::string> fr;
		const size_t rest(peer_frames(fr));
		std::ostringstream os;
		os << "first=" << first << " ns=" << ns << " wire=";
		for (size_t i(0); i < fr.size(); ++i)
			os << (i ? "," : "") << field(fr[i], "34") << ':' << field(fr[i], "35") << ':' << field(fr[i], "11") << ':' << fnv(fr[i]);
		if (fr.empty()) os << '-';
		if (rest) os << " trailing=" << rest;
		os << " store=";
		bool any(false);
		for (unsigned n(1); per && n < ns + 2; ++n)
		{
			f8String m;
			const bool have(per->get(n, m));
			if (!have && n < first) continue;
			if (!have && n >= ns) continue;
			os << (any ? "," : "") << n << ':' << (have ? fnv(m) : std::string("-"));
			any = true;
		}
		if (!any) os << '-';
		return os.str();
	}
};

static World w;

static void lt_main(LT *lt)
{
	tl_lt = lt;
	for (;;)
	{
		{
			std::unique_lock<std::mutex> lk(lt->m);
			lt->cv.wait(lk, [&] { return lt->has_call || lt->quit; });
			if (lt->quit && !lt->has_call) return;
			lt->has_call = false;
		}
		size_t r(0);
		try
		{
			if (lt->batch)
			{
				std::vector<Message *> ms;
				for (size_t i(0); i < lt->pids.size(); ++i) ms.push_back(mk_order(lt->pids[i]));
				r = w.sess->send_batch(ms, true);
			}
			else if (w.pm != pm_pipeline && !lt->pids[0].empty() && (lt->pids[0][lt->pids[0].size() - 1] & 1))
			{
				// the non-owning overload (destroy = false): the caller keeps the message; synchronous in the lock-based models
				// ... every other one of them through the by-reference overload Session::send(Message&) -> FIXWriter::write(Message&)
				std::unique_ptr<Message> own(mk_order(lt->pids[0]));
				const size_t n(lt->pids[0].size());
				if (n >= 2 && (lt->pids[0][n - 2] & 1)) r = w.sess->send(*own, 0, false) ? 1 : 0;
				else r = w.sess->send(own.get(), false, 0, false) ? 1 : 0;
			}
			else
				r = w.sess->send(mk_order(lt->pids[0]), true, 0, false) ? 1 : 0;
		}
		catch (std::exception&) { r = 999999; }
		std::unique_lock<std::mutex> lk(lt->m);
		lt->ret = r; lt->idle = true; lt->where = "idle"; lt->cv.notify_all();
	}
}

static LT *get_lt(int t)
{
	for (size_t i(0); i < w.lts.size(); ++i) if (w.lts[i]->id == t) return w.lts[i];
	LT *lt(new LT(t));
	lt->th = std::thread(lt_main, lt);
	w.lts.push_back(lt);
	return lt;
}
static void wait_settled(LT *lt)
{
	std::unique_lock<std::mutex> lk(lt->m);
	lt->cv.wait(lk, [&] { return lt->parked || lt->idle; });
}

static std::string det_state(LT *lt, const std::string& res)
{
	// messages whose push is complete (pipe): a call that has reached rel or has returned has pushed all its messages
	if (lt && !lt->counted && (lt->idle || lt->where == "rel")) { w.pushed += lt->pids.size(); lt->counted = true; }
	if (w.pm == pm_pipeline) w.wait_ns(w.first + w.pushed);
	std::ostringstream os;
	os << res << " at=" << (lt ? lt->where : std::string("-")) << " lock=";
	const int h(g_holder);
	if (h < 0) os << '-'; else os << h;
	os << " ns=" << unsigned(w.sess->_next_send_seq);
	std::vector<std::string> cap;
	{ std::lock_guard<std::mutex> g(g_cap_m); cap = g_cap; }
	std::string bb(w.sess->_batchmsgs_buffer);
	std::vector<std::string> bf; cut_frames(bb, bf);
	os << " wire=" << cap.size() << " buf=" << bf.size() << " st=" << unsigned(w.per->stored) << " new=";
	bool any(false);
	for (size_t i(w.cap_seen); i < cap.size(); ++i) { os << (any ? "," : "") << seqpid(cap[i]); any = true; }
	w.cap_seen = std::max(w.cap_seen, cap.size());
	if (!any) os << '-';
	return os.str();
}

//------------------------------------------------------------------------------------------------- free-running
struct Op { bool batch; std::vector<std::string> pids; };
static bool parse_prog(const std::string& s, std::vector<Op>& to)
{
	std::vector<std::string> a(split(s));
	for (size_t i(0); i < a.size(); ++i)
	{
		if (a[i].size() < 3 || a[i][1] != ':' || (a[i][0] != 'w' && a[i][0] != 'b')) return false;
		Op op; op.batch = a[i][0] == 'b';
		std::string rest(a[i].substr(2)), it;
		std::istringstream is(rest);
		while (std::getline(is, it, '+')) if (!it.empty()) op.pids.push_back(it);
		if (op.pids.empty() || (!op.batch && op.pids.size() != 1)) return false;
		to.push_back(op);
	}
	return true;
}

static std::string do_free(const std::string& line)
{
	std::vector<std::string> parts;
	{ std::istringstream is(line); std::string p; while (std::getline(is, p, '|')) parts.push_back(p); }
	std::vector<std::string> hd(split(parts[0]));
	if (hd.size() != 4 || parts.size() < 2) return "bad-op";
	std::vector<std::vector<Op> > progs(parts.size() - 1);
	size_t total(0);
	for (size_t i(1); i < parts.size(); ++i)
	{
		if (!parse_prog(parts[i], progs[i - 1])) return "bad-op";
		for (size_t k(0); k < progs[i - 1].size(); ++k) total += progs[i - 1][k].pids.size();
	}
	w.drop();
	g_det = false;
	if (!w.start(hd[1], hd[2])) return "start-failed";
	const bool hunt(hd[3] == "W");
	std::atomic<int> ready(0);
	std::atomic<bool> go(false);
	std::atomic<unsigned> failed(0);
	std::vector<std::thread> ths;
	std::vector<LT *> marks;
	for (size_t t(0); t < progs.size(); ++t)
	{
		LT *mark(new LT(int(t) + 1));	// only its id is used (lock holder bookkeeping of the witness hunt)
		marks.push_back(mark);
		ths.push_back(std::thread([&, t, mark] {
			tl_lt = mark;
			// build every message first: the concurrent phase is only send / send_batch
			std::vector<std::vector<Message *> > ms(progs[t].size());
			for (size_t k(0); k < progs[t].size(); ++k)
				for (size_t j(0); j < progs[t][k].pids.size(); ++j) ms[k].push_back(mk_order(progs[t][k].pids[j]));
			++ready;
			while (!go) sched_yield();
			if (hunt && t == 1)
				for (int spin(0); spin < 20000000 && g_holder.load(std::memory_order_relaxed) != 1; ++spin) {}
			for (size_t k(0); k < progs[t].size(); ++k)
			{
				try
				{
					if (progs[t][k].batch) { if (w.sess->send_batch(ms[k], true) != ms[k].size()) ++failed; }
					else if (w.pm != pm_pipeline && ((t + k) & 1))
					{
						// the non-owning overload (destroy = false), message freed by the caller afterwards
						std::unique_ptr<Message> own(ms[k][0]);
						if ((t + k) & 2) { if (!w.sess->send(*own, 0, false)) ++failed; }	// by-reference overload
						else if (!w.sess->send(own.get(), false, 0, false)) ++failed;
					}
					else if (!w.sess->send(ms[k][0], true, 0, false)) ++failed;
				}
				catch (std::exception&) { ++failed; }
			}
			tl_lt = nullptr;
		}));
	}
	while (ready < int(progs.size())) sched_yield();
	go = true;
	for (size_t t(0); t < ths.size(); ++t) ths[t].join();
	for (size_t t(0); t < marks.size(); ++t) delete marks[t];
	w.pushed = unsigned(total);
	std::string r(w.final_dump(total + 1));
	std::ostringstream os; os << r << " ret=" << unsigned(failed);
	return os.str();	// the world is torn down by the next command / at exit: the answer is out before any tear-down trouble
}

int main()
{
	static const pthread_t main_thread(pthread_self());
	// sleeps of the main thread (stop(): 250 ms, ~Session: 1 s) are skipped; service threads really wait 1 ms instead of spinning
	vclock::sleep_hook = [](long long, bool) { if (!pthread_equal(pthread_self(), main_thread)) ::poll(0, 0, 1); };
	GlobalLogger::set_levels(Logger::Levels(Logger::None));
	g_dir = scratch_dir("conc");
	w.listen_on();
	std::string line;
	while (std::getline(std::cin, line))
	{
		std::vector<std::string> a(split(line));
		try
		{
			if (a.empty()) { out("bad-op"); continue; }
			if (a[0] == "free") { out(do_free(line)); continue; }
			if (a[0] == "det" && a.size() == 3)
			{
				w.drop();
				g_det = true;
				if (!w.start(a[1], a[2])) { out("start-failed"); continue; }
				out(det_state(nullptr, "ok"));
				continue;
			}
			if (!w.sess || !g_det) { out("no-session"); continue; }
			if (a[0] == "end" && a.size() == 1)
			{
				size_t busy(0);
				for (size_t i(0); i < w.lts.size(); ++i) if (!w.lts[i]->idle) ++busy;
				if (busy) { out("bad"); continue; }
				std::string r(w.final_dump(w.submitted + 1));
				w.drop();
				out(r);
				continue;
			}
			if (a[0] == "call" && a.size() >= 3 && (a[2] == "w" || a[2] == "b"))
			{
				const int t(std::atoi(a[1].c_str()));
				if (t < 1 || t > 64 || (a[2] == "w" && a.size() != 4)) { out("bad"); continue; }
				LT *lt(get_lt(t));
				if (!lt->idle) { out(det_state(lt, "bad")); continue; }
				{
					std::unique_lock<std::mutex> lk(lt->m);
					lt->pids.assign(a.begin() + 3, a.end()); lt->batch = a[2] == "b";
					w.submitted += unsigned(lt->pids.size());
					lt->idle = false; lt->has_call = true; lt->counted = false; lt->where = "start";
					lt->cv.notify_all();
				}
				wait_settled(lt);
				if (w.pm != pm_pipeline) lt->counted = true;
				out(det_state(lt, "ok"));
				continue;
			}
			if (a[0] == "run" && a.size() == 2)
			{
				const int t(std::atoi(a[1].c_str()));
				LT *lt(nullptr);
				for (size_t i(0); i < w.lts.size(); ++i) if (w.lts[i]->id == t) lt = w.lts[i];
				if (!lt || lt->idle || !lt->parked) { out(det_state(lt, "bad")); continue; }
				{
					std::unique_lock<std::mutex> lk(lt->m);
					lt->spun = false; lt->go = true; lt->parked = false; lt->cv.notify_all();
				}
				wait_settled(lt);
				out(det_state(lt, lt->spun ? "spin" : "ok"));
				continue;
			}
			out("bad-op");
		}
		catch (f8Exception& e) { out(std::string("throw:f8Exception")); }
		catch (std::exception& e) { out("throw:std"); }
	}
	w.drop();
	std::fflush(stdout);
	rmtree(g_dir); ::rmdir(g_dir.c_str());
	_exit(0);
}
