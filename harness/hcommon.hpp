// shared helpers of the correspondence harnesses
#ifndef VERIF_HCOMMON_HPP
#define VERIF_HCOMMON_HPP
#include <iostream>
#include <sstream>
#include <string>
#include <vector>
#include <cstring>
#include <cstdio>
#include <cstdlib>

inline std::vector<std::string> split(const std::string& s)
{
	std::vector<std::string> r; std::istringstream is(s); std::string t;
	while (is >> t) r.push_back(t);
	return r;
}
inline int hexval(char c)
{
	if (c >= '0' && c <= '9') return c - '0';
	if (c >= 'a' && c <= 'f') return c - 'a' + 10;
	if (c >= 'A' && c <= 'F') return c - 'A' + 10;
	return -1;
}
inline bool unhex(const std::string& h, std::string& to)
{
	to.clear();
	if (h == "-") return true;
	if (h.size() % 2) return false;
	for (size_t i(0); i < h.size(); i += 2)
	{
		const int a(hexval(h[i])), b(hexval(h[i + 1]));
		if (a < 0 || b < 0) return false;
		to += char(a * 16 + b);
	}
	return true;
}
inline std::string hex(const std::string& s)
{
	if (s.empty()) return "-";
	static const char *d = "0123456789abcdef";
	std::string r;
	for (size_t i(0); i < s.size(); ++i) { r += d[(unsigned char)s[i] >> 4]; r += d[s[i] & 15]; }
	return r;
}
// every result line is flushed at once so that a sanitizer abort loses nothing
// a fresh scratch directory: below $VERIF_SCRATCH (made and removed by vlib.run_harness around every harness process) or /tmp
inline std::string scratch_dir(const char *tag)
{
	const char *base(std::getenv("VERIF_SCRATCH"));
	std::string t(std::string(base && *base ? base : "/tmp") + "/verif_" + tag + "_XXXXXX");
	std::vector<char> b(t.begin(), t.end()); b.push_back(0);
	const char *r(mkdtemp(&b[0]));
	if (!r) { std::perror("mkdtemp"); std::exit(3); }
	return r;
}

inline void out(const std::string& s) { std::fputs(s.c_str(), stdout); std::fputc('\n', stdout); std::fflush(stdout); }
#endif
