// C16-C19 harness: a REAL FIX8::Session (FIX42UTEST schema) driven by a line protocol.
//   new <mem|file|none> <enforce 0|1> <sendseq> <recvseq> [A]   fresh store, session + ClientConnection over loopback TCP, start()
//                                  (A = _always_seqnum_assign on: oracle-only runs, this configuration is not modelled)
//   restart <sendseq> <recvseq>    destroy session + connection, recreate over the same store (file: reopen the files), start()
//   in <hex>                       Session::process(raw frame)
//   app <pid> <custom> <noinc>     send(NewOrderSingle ClOrdID=pid, custom_seqnum, no_increment)
//   batch <pid>...                 send_batch(NewOrderSingle...)
//   bbatch <textlen> <pid>...      the same with a Text field of <textlen> bytes in every order (batches beyond the reserved buffer)
//   fwd <pid> <seq>                send(NewOrderSingle whose header already carries MsgSeqNum=<seq> and a SendingTime): a forwarded message
//   adm <custom> <noinc>           send(Heartbeat, custom_seqnum, no_increment)          (an administrative new message)
//   clock <ms>                     virtual clock := T0 + ms
//   get <n>                        Persister::get(n) (stored bytes, decoded with the real Message::factory)
// The session's timer thread is stopped; process model pm_coro: no reader/writer threads, FIXWriter::write calls
// send_process synchronously.  Outbound bytes are captured at the send() system call of the connection's descriptor
// (interposed in this executable) and cut into frames; every frame is decoded with the real Message::factory and
// printed as an abstract record (+ the raw hex, which the comparison with the model ignores).
// Result line:  <event> <event> ... | st=<state> ns=<next send> nr=<next receive> ctrl=<a,b|none> sd=<shutdown>
//   events in order of occurrence:  abs{...} (independent decode of the inbound frame)  adm{raw seqnum}  dlv{raw seqnum, decoded}
//   out{...}  (one per frame; w=<k> numbers the socket write it was part of)
#include "hcommon.hpp"
#include "openup.hpp"
#include "vclock.hpp"
#include <fix8/f8includes.hpp>
#include "utest_types.hpp"
#include "utest_router.hpp"
#include "utest_classes.hpp"
#include <dirent.h>
#include <sys/stat.h>
#include <sys/socket.h>
#include <netinet/in.h>
#include <arpa/inet.h>
using namespace FIX8;

static const long long T0_MS = 1600000000000LL;	// 2020-09-13T12:26:40Z
static Poco::Net::StreamSocket *g_sock(nullptr);
static std::vector<std::string> g_events;
static unsigned g_writes(0);
static int g_fail_writes = 0;

// generic field access (text as the field prints itself); "-" when absent
static std::string fld(const MessageBase *mb, unsigned short tag)
{
	if (!mb) return "-";
	const BaseField *bf(mb->get_field(tag));
	if (!bf) return "-";
	std::ostringstream os; bf->print(os);
	return os.str().empty() ? "-" : os.str();
}
// UTCTimestamp text -> ms since the epoch
static std::string ts_ms(const std::string& t)
{
	if (t == "-") return "-";
	struct tm tmv; std::memset(&tmv, 0, sizeof(tmv));
	int ms(0);
	if (std::sscanf(t.c_str(), "%4d%2d%2d-%2d:%2d:%2d.%3d", &tmv.tm_year, &tmv.tm_mon, &tmv.tm_mday, &tmv.tm_hour, &tmv.tm_min, &tmv.tm_sec, &ms) < 6)
		return "?";
	tmv.tm_year -= 1900; tmv.tm_mon -= 1;
	std::ostringstream os; os << ((long long)timegm(&tmv) * 1000LL + ms);	// absolute ms since the epoch (never negative for a FIX timestamp)
	return os.str();
}

// abstract record of a decoded message
static std::string absrec(const Message *m)
{
	std::ostringstream os;
	const MessageBase *h(m->Header());
	std::string pd(fld(h, 43)), gf(fld(m, 123));
	os << "t=" << m->get_msgtype() << ",seq=" << fld(h, 34) << ",pd=" << (pd == "Y" ? "1" : pd == "N" ? "0" : pd)
		<< ",st=" << ts_ms(fld(h, 52)) << ",ost=" << ts_ms(fld(h, 122)) << ",snd=" << fld(h, 49) << ",tgt=" << fld(h, 56)
		<< ",new=" << fld(m, 36) << ",gf=" << (gf == "Y" ? "1" : gf == "N" ? "0" : gf) << ",b=" << fld(m, 7) << ",e=" << fld(m, 16)
		<< ",ref=" << fld(m, 45) << ",trq=" << fld(m, 112) << ",pid=" << fld(m, 11) << ",adm=" << (m->is_admin() ? 1 : 0);
	return os.str();
}

static std::string absraw(const std::string& raw)
{
	Message *m(nullptr);
	std::string r;
	try
	{
		m = Message::factory(UTEST::ctx(), raw, false, false);
		if (!m) return "dec=null";
		r = "dec=ok," + absrec(m);
	}
	catch (f8Exception& e) { r = std::string("dec=throw,fl=") + (e.force_logoff() ? "1" : "0"); }
	catch (std::exception& e) { r = "dec=stdexc"; }
	delete m;
	return r;
}

// cut a socket write into frames by BodyLength
static void cut_frames(const std::string& data, std::vector<std::string>& to)
{
	size_t pos(0);
	while (pos < data.size())
	{
		const size_t p9(data.find("\0019=", pos));
		if (p9 == std::string::npos) { to.push_back(data.substr(pos)); return; }
		const size_t pe(data.find('\001', p9 + 3));
		if (pe == std::string::npos) { to.push_back(data.substr(pos)); return; }
		const unsigned long len(std::strtoul(data.substr(p9 + 3, pe - p9 - 3).c_str(), nullptr, 10));
		const size_t end(pe + 1 + len + 7);
		if (end > data.size()) { to.push_back(data.substr(pos)); return; }
		to.push_back(data.substr(pos, end - pos));
		pos = end;
	}
}

extern "C" ssize_t send(int fd, const void *buf, size_t n, int flags)
{
	typedef ssize_t (*sfn)(int, const void *, size_t, int);
	static sfn real((sfn)dlsym(RTLD_NEXT, "send"));
	if (fd >= 0 && g_sock && fd == g_sock->impl()->sockfd())
	{
		if (g_fail_writes > 0)	// op `wfail`: the socket write fails (connection lost under the writer)
		{
			--g_fail_writes;
			errno = EPIPE;
			return -1;
		}
		++g_writes;
		std::vector<std::string> frames;
		cut_frames(std::string(static_cast<const char *>(buf), n), frames);
		for (size_t i(0); i < frames.size(); ++i)
		{
			std::ostringstream os;
			os << "out{w=" << g_writes << ',' << absraw(frames[i]) << ",hex=" << hex(frames[i]) << '}';
			g_events.push_back(os.str());
		}
		return n;	// the peer never reads: nothing is put on the wire
	}
	return real(fd, buf, n, flags);
}

class HSess : public Session
{
public:
	HSess(const SessionID& sid, Persister *p) : Session(UTEST::ctx(), sid, p, nullptr, nullptr)
	{
		_timer.clear(); _timer.stop(); _timer.join();
	}
	bool handle_admin(const unsigned seqnum, const Message *msg)
	{
		std::ostringstream os; os << "adm{raw=" << seqnum << '}'; g_events.push_back(os.str());
		return true;
	}
	// the pattern of every sample application: enforce(...) || deliver
	bool handle_application(const unsigned seqnum, const Message *&msg)
	{
		if (enforce(seqnum, msg))
			return true;
		std::ostringstream os; os << "dlv{raw=" << seqnum << ',' << absrec(msg) << '}'; g_events.push_back(os.str());
		return true;
	}
};

static std::string g_dir;
static void rmtree(const std::string& d)
{
	DIR *dp(opendir(d.c_str()));
	if (!dp) return;
	while (dirent *e = readdir(dp))
	{
		const std::string n(e->d_name);
		if (n == "." || n == "..") continue;
		::unlink((d + "/" + n).c_str());
	}
	closedir(dp);
}

struct World
{
	int lfd, afd; unsigned short port;
	Persister *per; std::string pkind; bool enforce, always;
	HSess *sess; ClientConnection *conn; Poco::Net::StreamSocket *sock;
	World() : lfd(-1), afd(-1), port(0), per(nullptr), enforce(true), always(false), sess(nullptr), conn(nullptr), sock(nullptr) {}

	void listen_on()
	{
		lfd = ::socket(AF_INET, SOCK_STREAM, 0);
		sockaddr_in a; std::memset(&a, 0, sizeof(a)); a.sin_family = AF_INET; a.sin_addr.s_addr = htonl(INADDR_LOOPBACK); a.sin_port = 0;
		::bind(lfd, (sockaddr *)&a, sizeof(a)); ::listen(lfd, 4);
		socklen_t l(sizeof(a)); ::getsockname(lfd, (sockaddr *)&a, &l); port = ntohs(a.sin_port);
	}
	void drop_session()
	{
		g_sock = nullptr;
		if (sess && !sess->is_shutdown()) sess->stop();
		delete conn; conn = nullptr;		// ~Connection calls back into the session: connection first
		delete sess; sess = nullptr;		// ~Session sleeps one second (skipped by vclock)
		delete sock; sock = nullptr;
		if (afd >= 0) { ::close(afd); afd = -1; }
	}
	void open_store(bool fresh)
	{
		if (pkind == "none") { per = nullptr; return; }
		if (pkind == "mem") { if (fresh || !per) { delete per; per = new MemoryPersister; } return; }
		delete per; per = nullptr;
		FilePersister *fp(new FilePersister(0));
		fp->initialise(g_dir, "sess.db", fresh);
		per = fp;
	}
	bool start(unsigned ss, unsigned rs)
	{
		sess = new HSess(SessionID(f8String("FIX.4.2"), f8String("CLI"), f8String("SRV")), per);
		LoginParameters lp(1, 1, default_appl_ver_id(), 1, false, always, false, false, false, false, enforce);
		sess->set_login_parameters(lp);
		sock = new Poco::Net::StreamSocket;
		Poco::Net::SocketAddress addr("127.0.0.1", port);
		conn = new ClientConnection(sock, addr, *sess, 30, pm_coro, true);
		g_sock = sock;	// Session::start connects and sends the Logon
		const bool ok(sess->start(conn, false, ss, rs) == 0);
		if (ok) afd = ::accept(lfd, nullptr, nullptr);
		return ok;
	}
	std::string summary()
	{
		std::ostringstream os;
		if (!sess) return "| nosession";
		os << "| st=" << Session::_state_names[sess->_state] << " ns=" << unsigned(sess->_next_send_seq) << " nr=" << unsigned(sess->_next_receive_seq);
		unsigned a(0), b(0);
		if (per && per->get(a, b)) os << " ctrl=" << a << ',' << b; else os << " ctrl=none";
		os << " sd=" << (sess->is_shutdown() ? 1 : 0);
		return os.str();
	}
};

static Message *mk_order(const std::string& pid, unsigned textlen=0)
{
	UTEST::NewOrderSingle *nos(new UTEST::NewOrderSingle);
	if (textlen)
		*nos << new UTEST::Text(std::string(textlen, 'x'));
	*nos << new UTEST::TransactTime(Tickval(true))
		  << new UTEST::OrderQty(50)
		  << new UTEST::ClOrdID(pid)
		  << new UTEST::HandlInst(UTEST::HandlInst_AUTOMATED_EXECUTION_ORDER_PRIVATE_NO_BROKER_INTERVENTION)
		  << new UTEST::OrdType(UTEST::OrdType_MARKET)
		  << new UTEST::Side(UTEST::Side_BUY)
		  << new UTEST::Symbol("OC");
	return nos;
}

int main()
{
	// the global logger is not the subject here: library threads that log through it allocate from FastFlow's per-thread allocator, whose
	// deregistration at thread exit is occasionally reported by ASan (heap-use-after-free in ff/allocator.hpp) - keep it silent
	FIX8::GlobalLogger::set_levels(FIX8::Logger::Levels(FIX8::Logger::None));
	vclock::skip_sleeps = true;
	vclock::set(T0_MS * 1000000LL);
	g_dir = scratch_dir("sess");
	World w;
	w.listen_on();
	std::string line;
	while (std::getline(std::cin, line))
	{
		std::vector<std::string> a(split(line));
		g_events.clear();
		std::string head;
		try
		{
			if (a.empty()) { out("bad-op"); continue; }
			if (a[0] == "new" && (a.size() == 5 || (a.size() == 6 && (a[5] == "A" || a[5] == "X"))))
			{
				// A = _always_seqnum_assign on; X = segment with the extended operations (fwd outside A, dbatch, wfail): both are
				// outside the Lean model and judged by the property oracles only
				w.always = a.size() == 6 && a[5] == "A";
				g_fail_writes = 0;
				w.drop_session();
				rmtree(g_dir);
				vclock::set(T0_MS * 1000000LL);
				w.pkind = a[1]; w.enforce = a[2] == "1";
				w.open_store(true);
				if (!w.start(std::stoul(a[3]), std::stoul(a[4]))) head = "start-failed";
			}
			else if (a[0] == "restart" && a.size() == 3)
			{
				w.drop_session();
				w.open_store(false);
				if (!w.start(std::stoul(a[1]), std::stoul(a[2]))) head = "start-failed";
			}
			else if (a[0] == "clock" && a.size() == 2) { vclock::set((T0_MS + std::stoll(a[1])) * 1000000LL); }
			else if (!w.sess) { out("no-session"); continue; }
			else if (a[0] == "get" && a.size() == 2)
			{
				std::string m;
				if (w.per && w.per->get(unsigned(std::stoul(a[1])), m)) head = "stored{" + absraw(m) + ",hex=" + hex(m) + "}";
				else head = "stored{none}";
			}
			else if (w.sess->is_shutdown()) { out("stopped " + w.summary()); continue; }
			else if (a[0] == "in" && a.size() == 2)
			{
				std::string raw;
				if (!unhex(a[1], raw) || raw.empty() || raw[raw.size() - 1] != '\001') { out("bad-op"); continue; }
				g_events.push_back("abs{" + absraw(raw) + "}");
				const bool r(w.sess->process(raw));
				g_events.push_back(r ? "ret=1" : "ret=0");
			}
			else if (a[0] == "app" && a.size() == 4)
			{
				const bool r(w.sess->send(mk_order(a[1]), true, unsigned(std::stoul(a[2])), a[3] == "1"));
				g_events.push_back(r ? "ret=1" : "ret=0");
			}
			else if (a[0] == "adm" && a.size() == 3)
			{
				const bool r(w.sess->send(w.sess->generate_heartbeat(f8String()), true, unsigned(std::stoul(a[1])), a[2] == "1"));
				g_events.push_back(r ? "ret=1" : "ret=0");
			}
			else if (a[0] == "fwd" && a.size() == 3)
			{
				Message *m(mk_order(a[1]));
				*m->Header() << new msg_seq_num(unsigned(std::stoul(a[2]))) << new sending_time;
				const bool r(w.sess->send(m, true, 0, false));
				g_events.push_back(r ? "ret=1" : "ret=0");
			}
			else if (a[0] == "dbatch" && a.size() >= 2)
			{
				// send_batch whose elements are new orders (`pid`) or forwarded messages that already carry a MsgSeqNum (`pid@seq`:
				// send_process marks them PossDupFlag=Y, they are retransmissions)
				std::vector<Message *> ms;
				for (size_t i(1); i < a.size(); ++i)
				{
					const size_t at(a[i].find('@'));
					Message *m(mk_order(a[i].substr(0, at)));
					if (at != std::string::npos)
						*m->Header() << new msg_seq_num(unsigned(std::stoul(a[i].substr(at + 1)))) << new sending_time;
					ms.push_back(m);
				}
				const size_t r(w.sess->send_batch(ms, true));
				std::ostringstream os; os << "ret=" << r; g_events.push_back(os.str());
			}
			else if (a[0] == "wfail" && a.size() == 2)
			{
				// an application send whose socket write fails
				g_fail_writes = 1;
				const bool r(w.sess->send(mk_order(a[1]), true, 0, false));
				g_fail_writes = 0;
				g_events.push_back(r ? "ret=1" : "ret=0");
			}
			else if ((a[0] == "batch" && a.size() >= 2) || (a[0] == "bbatch" && a.size() >= 3))
			{
				const bool big(a[0] == "bbatch");
				std::vector<Message *> ms;
				for (size_t i(big ? 2 : 1); i < a.size(); ++i) ms.push_back(mk_order(a[i], big ? unsigned(std::stoul(a[1])) : 0));
				const size_t r(w.sess->send_batch(ms, true));
				std::ostringstream os; os << "ret=" << r; g_events.push_back(os.str());
			}
			else { out("bad-op"); continue; }
		}
		catch (f8Exception& e) { g_events.push_back(std::string("throw:f8Exception:fl=") + (e.force_logoff() ? "1" : "0")); }
		catch (std::exception& e) { g_events.push_back("throw:std"); }
		std::ostringstream os;
		if (!head.empty()) os << head << ' ';
		for (size_t i(0); i < g_events.size(); ++i) os << g_events[i] << ' ';
		os << w.summary();
		out(os.str());
	}
	std::fflush(stdout);
	rmtree(g_dir); ::rmdir(g_dir.c_str());
	_exit(0);
}
