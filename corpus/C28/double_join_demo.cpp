// double join: Logger::stop() joins the writer thread, ~_f8_threadcore joins the same pthread_t again.
#include <fix8/f8includes.hpp>
#include <pthread.h>
#include <unistd.h>
#include <chrono>
#include <cstdio>
using namespace FIX8;
static void *sleeper(void *) { ::sleep(3); return 0; }
int main()
{
	FileLogger *lg(new FileLogger("/tmp/wk3/dj/x.log", Logger::LogFlags() << Logger::sequence, Logger::Levels(Logger::All), " ", Logger::LogPositions(), 0));
	lg->send("one");
	lg->stop();			// request_stop(); enqueue(""); _thread.join()   -> the writer thread is joined here
	pthread_t t;
	pthread_create(&t, 0, sleeper, 0);	// glibc hands the cached stack / descriptor of the joined thread to the new one: same pthread_t
	const auto t0(std::chrono::steady_clock::now());
	delete lg;			// ~Logger -> ~f8_thread -> ~_f8_threadcore: join() AGAIN on the stale pthread_t
	const double dt(std::chrono::duration<double>(std::chrono::steady_clock::now() - t0).count());
	const int rc(pthread_join(t, 0));
	std::printf("destructor took %.2f s; join of the unrelated thread by its owner returned %d\n", dt, rc);
	return dt > 1.0 || rc != 0;
}
